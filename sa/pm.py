"""PM -- program model of /repo/src/zeroconf built from the standard `ast`.

Modules, classes (bases, MRO, __slots__), functions, module-level aliases and
folded module constants.  `if TYPE_CHECKING:` blocks are replaced by their
run-time arm while loading, so every engine sees the program that executes.
"""
from __future__ import annotations

import ast
import hashlib
import os
import re
from typing import Any, Dict, Iterator, List, Optional, Tuple

from . import AnalysisError

PKG = 'zeroconf'


class NotConst(Exception):
    pass


def norm(node: ast.AST) -> str:
    """Normalised source text of a node (formatting-independent)."""
    return ast.unparse(node)


def walk_local(node: ast.AST) -> Iterator[ast.AST]:
    """ast.walk that does not descend into nested function / class / lambda bodies."""
    todo = list(ast.iter_child_nodes(node))
    while todo:
        n = todo.pop()
        yield n
        if isinstance(n, (ast.FunctionDef, ast.AsyncFunctionDef, ast.ClassDef, ast.Lambda)):
            continue
        todo.extend(ast.iter_child_nodes(n))


def walk_local_ordered(node: ast.AST) -> Iterator[ast.AST]:
    """Pre-order, source-order variant of walk_local (includes the root)."""
    yield node
    for c in ast.iter_child_nodes(node):
        if isinstance(c, (ast.FunctionDef, ast.AsyncFunctionDef, ast.ClassDef, ast.Lambda)):
            yield c
            continue
        yield from walk_local_ordered(c)


def _is_type_checking(test: ast.AST) -> bool:
    return (isinstance(test, ast.Name) and test.id == 'TYPE_CHECKING') or (
        isinstance(test, ast.Attribute) and test.attr == 'TYPE_CHECKING'
    )


class _StripTypeChecking(ast.NodeTransformer):
    """`if TYPE_CHECKING: A else: B` -> B (the arm that runs)."""

    def __init__(self) -> None:
        self.stripped = 0

    def visit_If(self, node: ast.If) -> Any:
        self.generic_visit(node)
        if _is_type_checking(node.test):
            self.stripped += 1
            return node.orelse or [ast.copy_location(ast.Pass(), node)]
        return node


class _Canonical(ast.NodeTransformer):
    """Spelling-only normal forms, so that rules see one shape for equivalent code:
    (a) `t = t op e` -> `t op= e`  (name / attribute-of-a-name targets, arithmetic and bit operators);
    (b) `t = e; return t` (adjacent statements; `t` is dead after the return) -> `return e`;
    (c) `if c: x = a  else: x = b` (single plain assignments to one name) -> `x = a if c else b`;
    (d) `t = e; if t:` (or `if not t:`) with `t` used nowhere else -> `if e:`;
    (e) `a, b = x, y` (not a swap) -> `a = x; b = y`;
    (f) `not (a or b)` -> `not a and not b`, `not not a` -> `a` in a test;
    (g) `if c: ...; return/raise/continue/break  else: REST` -> the `if` without else, followed by REST;
    (h) `if c: return X` followed by a `raise` that ends the block -> `if not c: raise ...` followed by `return X` (the refusal
        is the guard, the result is the fall-through);
    (i) `while True:` whose first statement is the guard `if c: raise ... / return X` (no `break` of that loop, no `else`)
        -> `while not c: REST` followed by the raise / return;
    (j) `cast(T, e)` -> `e` (typing.cast is the identity at run time);
    (k) `obj.a = X if c else Y` with a call in an arm -> `if c: obj.a = X  else: obj.a = Y`;
    (l) `if a: if b: X` -> `if a and b: X`;
    (m) `if a: r = X elif b: r = Y else: ...` followed by `return r` -> every arm returns what it assigned;
    (o) `(A if c else B).m(args)` as a statement -> `if c: A.m(args) else: B.m(args)`;
    (p) `xs = []` followed at once by `for T in IT: [if C:] xs.append(E)` -> `xs = [E for T in IT if C]` (sets, dicts alike);
    (q) `if k not in d: d[k] = <empty collection>` -> `d.setdefault(k, <empty collection>)`."""

    _OPS = (ast.Add, ast.Sub, ast.Mult, ast.BitOr, ast.BitAnd, ast.FloorDiv)

    def __init__(self) -> None:
        self.rewrites = 0
        self._uses: List[Dict[str, int]] = []

    def _fn(self, n: Any) -> Any:
        cnt: Dict[str, int] = {}
        for x in ast.walk(n):
            if isinstance(x, ast.Name):
                cnt[x.id] = cnt.get(x.id, 0) + 1
        self._uses.append(cnt)
        self.generic_visit(n)
        self._uses.pop()
        return n

    visit_FunctionDef = _fn
    visit_AsyncFunctionDef = _fn

    def visit_Assign(self, n: ast.Assign) -> Any:
        self.generic_visit(n)
        # (k) `obj.a = X if c else Y` where an arm makes a call -> `if c: obj.a = X  else: obj.a = Y` (which call is made is
        # control flow; path rules see it as such)
        if (len(n.targets) == 1 and isinstance(n.targets[0], (ast.Attribute, ast.Subscript)) and isinstance(n.value, ast.IfExp)
                and any(isinstance(x, (ast.Call, ast.Await)) for arm in (n.value.body, n.value.orelse) for x in ast.walk(arm))
                and not any(isinstance(x, (ast.Call, ast.Await, ast.NamedExpr)) for x in ast.walk(n.targets[0]))):
            import copy as _copy

            self.rewrites += 1
            a = ast.copy_location(ast.Assign(targets=[_copy.deepcopy(n.targets[0])], value=n.value.body), n)
            b = ast.copy_location(ast.Assign(targets=[_copy.deepcopy(n.targets[0])], value=n.value.orelse), n)
            return ast.copy_location(ast.If(test=n.value.test, body=[a], orelse=[b]), n)
        if len(n.targets) == 1 and isinstance(n.value, ast.BinOp) and isinstance(n.value.op, self._OPS):
            t = n.targets[0]
            simple = isinstance(t, ast.Name) or (isinstance(t, ast.Attribute) and isinstance(t.value, ast.Name))
            if simple and ast.dump(_as_load(t)) == ast.dump(n.value.left):
                self.rewrites += 1
                return ast.copy_location(ast.AugAssign(target=t, op=n.value.op, value=n.value.right), n)
        return n

    @staticmethod
    def _setlike(c: ast.Compare) -> bool:
        if not isinstance(c.ops[0], (ast.Lt, ast.LtE, ast.Gt, ast.GtE)):
            return False
        for side in [c.left] + list(c.comparators):
            for x in ast.walk(side):
                if isinstance(x, (ast.Set, ast.SetComp)) or (isinstance(x, ast.Call) and isinstance(x.func, ast.Name) and x.func.id in ('set', 'frozenset')):
                    return True
                if isinstance(x, ast.Call) and isinstance(x.func, ast.Attribute) and x.func.attr in ('keys', 'items', 'union', 'intersection', 'difference'):
                    return True
        return False

    def _nnf(self, e: ast.expr, boolctx: bool) -> ast.expr:
        """(f) negations are pushed through `and` / `or` (De Morgan; value-preserving: both sides are bools), and a double
        negation is dropped where only the truth value matters."""
        if isinstance(e, ast.UnaryOp) and isinstance(e.op, ast.Not):
            inner = e.operand
            if isinstance(inner, ast.BoolOp):
                self.rewrites += 1
                dual = ast.Or() if isinstance(inner.op, ast.And) else ast.And()
                vals = [ast.copy_location(ast.UnaryOp(op=ast.Not(), operand=v), v) for v in inner.values]
                return self._nnf(ast.copy_location(ast.BoolOp(op=dual, values=vals), e), boolctx)
            if isinstance(inner, ast.Compare) and len(inner.ops) == 1 and not self._setlike(inner):
                # `not a < b` -> `a >= b` etc.: exact for `==`/`!=`/`is`/`in`; for the ordering operators exact on a total order
                # (numbers, strings, bytes -- everything this code base orders; sets, which are only partially ordered, are
                # excluded when they can be recognised)
                flip = {ast.Lt: ast.GtE, ast.LtE: ast.Gt, ast.Gt: ast.LtE, ast.GtE: ast.Lt, ast.Eq: ast.NotEq, ast.NotEq: ast.Eq,
                        ast.Is: ast.IsNot, ast.IsNot: ast.Is, ast.In: ast.NotIn, ast.NotIn: ast.In}
                self.rewrites += 1
                return ast.copy_location(ast.Compare(left=inner.left, ops=[flip[type(inner.ops[0])]()], comparators=inner.comparators), e)
            if isinstance(inner, ast.UnaryOp) and isinstance(inner.op, ast.Not) and boolctx:
                self.rewrites += 1
                return self._nnf(inner.operand, True)
            e.operand = self._nnf(inner, True)
            return e
        if isinstance(e, ast.BoolOp):
            e.values = [self._nnf(v, boolctx) for v in e.values]
            return e
        return e

    def visit_Expr(self, n: ast.Expr) -> Any:
        self.generic_visit(n)
        # (o) `(A if c else B).m(args)` as a statement (a receiver chosen by a conditional expression, typically through a
        # local: `adds = A if c else B; adds.append(x)`) -> `if c: A.m(args) else: B.m(args)`
        v = n.value
        if isinstance(v, ast.Call) and isinstance(v.func, ast.Attribute) and isinstance(v.func.value, ast.IfExp):
            import copy as _copy

            ie = v.func.value
            self.rewrites += 1

            def call_on(recv: ast.expr) -> ast.stmt:
                c = _copy.deepcopy(v)
                c.func.value = recv  # type: ignore[attr-defined]
                return ast.copy_location(ast.Expr(value=c), n)

            return ast.copy_location(ast.If(test=ie.test, body=[call_on(ie.body)], orelse=[call_on(ie.orelse)]), n)
        return n

    def visit_Call(self, n: ast.Call) -> Any:
        self.generic_visit(n)
        # (j) `cast(T, e)` is `e` at run time; the value keeps the position of the cast (where the oracle knows it as a T)
        if isinstance(n.func, ast.Name) and n.func.id == 'cast' and len(n.args) == 2 and not n.keywords and isinstance(n.args[1], (ast.Name, ast.Attribute, ast.Subscript)):
            self.rewrites += 1
            import copy as _copy

            inner = _copy.copy(n.args[1])
            return ast.copy_location(inner, n)
        return n

    def visit_UnaryOp(self, n: ast.UnaryOp) -> Any:
        self.generic_visit(n)
        return self._nnf(n, False) if isinstance(n.op, ast.Not) else n

    @staticmethod
    def _breaks(body: List[ast.stmt]) -> bool:
        todo: List[ast.AST] = list(body)
        while todo:
            x = todo.pop()
            if isinstance(x, ast.Break):
                return True
            if isinstance(x, (ast.For, ast.AsyncFor, ast.While)):
                todo.extend(x.orelse)
                continue
            if isinstance(x, (ast.FunctionDef, ast.AsyncFunctionDef, ast.Lambda, ast.ClassDef)):
                continue
            todo.extend(ast.iter_child_nodes(x))
        return False

    def visit_While(self, n: ast.While) -> Any:
        self.generic_visit(n)
        n.test = self._nnf(n.test, True)
        # (i) `while True: if c: raise E ...` -> `while not c: ...` then `raise E`
        if isinstance(n.test, ast.Constant) and n.test.value is True and not n.orelse and n.body and not self._breaks(n.body):
            # ... the guard may be preceded by locals that name call-free reads (`offset = self.offset`): the test is written
            # with what they name, the bindings stay at the top of the body
            lead: List[ast.stmt] = []
            env: Dict[str, ast.expr] = {}
            k = 0
            while (k < len(n.body) and k < 3 and isinstance(n.body[k], ast.Assign) and len(n.body[k].targets) == 1 and isinstance(n.body[k].targets[0], ast.Name)
                   and not any(isinstance(x, (ast.Call, ast.Await, ast.NamedExpr, ast.Yield, ast.YieldFrom, ast.Lambda, ast.ListComp, ast.SetComp, ast.DictComp, ast.GeneratorExp)) for x in ast.walk(n.body[k].value))):
                env[n.body[k].targets[0].id] = n.body[k].value
                lead.append(n.body[k])
                k += 1
            if (k < len(n.body) and isinstance(n.body[k], ast.If) and not n.body[k].orelse and len(n.body[k].body) == 1
                    and isinstance(n.body[k].body[0], (ast.Raise, ast.Return))
                    and not any(isinstance(x, ast.Name) and x.id in env for x in ast.walk(n.body[k].body[0]))):
                g = n.body[k]
                import copy as _copy

                class _S(ast.NodeTransformer):
                    def visit_Name(self, nm: ast.Name) -> Any:
                        return _copy.deepcopy(env[nm.id]) if isinstance(nm.ctx, ast.Load) and nm.id in env else nm

                self.rewrites += 1
                test = _S().visit(_copy.deepcopy(g.test)) if env else g.test
                n.test = self._nnf(ast.copy_location(ast.UnaryOp(op=ast.Not(), operand=test), g.test), True)
                n.body = lead + n.body[k + 1:] or [ast.copy_location(ast.Pass(), g)]
                return [n, g.body[0]]
        return n

    def visit_IfExp(self, n: ast.IfExp) -> Any:
        self.generic_visit(n)
        n.test = self._nnf(n.test, True)
        return n

    def visit_If(self, n: ast.If) -> Any:
        self.generic_visit(n)
        n.test = self._nnf(n.test, True)
        # (l) `if a: if b: X` (nothing else in the outer body, no `else` on either) -> `if a and b: X`
        while not n.orelse and len(n.body) == 1 and isinstance(n.body[0], ast.If) and not n.body[0].orelse:
            inner = n.body[0]
            vals = (n.test.values if isinstance(n.test, ast.BoolOp) and isinstance(n.test.op, ast.And) else [n.test]) + (inner.test.values if isinstance(inner.test, ast.BoolOp) and isinstance(inner.test.op, ast.And) else [inner.test])
            n.test = ast.copy_location(ast.BoolOp(op=ast.And(), values=vals), n.test)
            n.body = inner.body
            self.rewrites += 1
        if n.orelse and isinstance(n.body[-1], (ast.Return, ast.Raise, ast.Continue, ast.Break)):
            # (g) `if c: ...; return  else: REST` -> `if c: ...; return` followed by REST
            self.rewrites += 1
            rest = n.orelse
            n.orelse = []
            return [n] + rest
        if len(n.body) == 1 and len(n.orelse) == 1 and all(isinstance(b, ast.Assign) and len(b.targets) == 1 and isinstance(b.targets[0], ast.Name) for b in (n.body[0], n.orelse[0])):
            a, b = n.body[0], n.orelse[0]
            if a.targets[0].id == b.targets[0].id:  # type: ignore[attr-defined]
                self.rewrites += 1
                return ast.copy_location(ast.Assign(targets=[a.targets[0]], value=ast.copy_location(ast.IfExp(test=n.test, body=a.value, orelse=b.value), n)), n)  # type: ignore[attr-defined]
        return n

    @staticmethod
    def _collect_loop(st: ast.stmt, nx: Optional[ast.stmt]) -> Optional[ast.stmt]:
        """(p) an empty collection followed at once by the loop that fills it, one element per trip, optionally under one
        test, is the comprehension."""
        tgt: Optional[ast.expr] = None
        val: Optional[ast.expr] = None
        if isinstance(st, ast.Assign) and len(st.targets) == 1 and isinstance(st.targets[0], ast.Name):
            tgt, val = st.targets[0], st.value
        elif isinstance(st, ast.AnnAssign) and isinstance(st.target, ast.Name) and st.value is not None:
            tgt, val = st.target, st.value
        if tgt is None or not isinstance(nx, ast.For) or nx.orelse or not isinstance(nx.target, (ast.Name, ast.Tuple)):
            return None
        kind = None
        if isinstance(val, ast.List) and not val.elts:
            kind = 'list'
        elif isinstance(val, ast.Dict) and not val.keys:
            kind = 'dict'
        elif isinstance(val, ast.Call) and isinstance(val.func, ast.Name) and val.func.id == 'set' and not val.args and not val.keywords:
            kind = 'set'
        if kind is None:
            return None
        body = nx.body
        cond: Optional[ast.expr] = None
        if len(body) == 1 and isinstance(body[0], ast.If) and not body[0].orelse and len(body[0].body) == 1:
            cond, body = body[0].test, body[0].body
        elif len(body) == 2 and isinstance(body[0], ast.If) and not body[0].orelse and len(body[0].body) == 1 and isinstance(body[0].body[0], ast.Continue):
            # the guard spelling: `if skip: continue` then the one statement that collects
            cond, body = ast.copy_location(ast.UnaryOp(op=ast.Not(), operand=body[0].test), body[0].test), body[1:]
        if len(body) != 1:
            return None
        b = body[0]
        name = tgt.id  # type: ignore[attr-defined]
        elt: Optional[ast.expr] = None
        key: Optional[ast.expr] = None
        if kind in ('list', 'set') and isinstance(b, ast.Expr) and isinstance(b.value, ast.Call) and isinstance(b.value.func, ast.Attribute) and isinstance(b.value.func.value, ast.Name) and b.value.func.value.id == name \
                and b.value.func.attr == ('append' if kind == 'list' else 'add') and len(b.value.args) == 1 and not b.value.keywords:
            elt = b.value.args[0]
        elif kind == 'dict' and isinstance(b, ast.Assign) and len(b.targets) == 1 and isinstance(b.targets[0], ast.Subscript) and isinstance(b.targets[0].value, ast.Name) and b.targets[0].value.id == name:
            key, elt = b.targets[0].slice, b.value
        if elt is None:
            return None
        for part in [elt, key, cond, nx.iter]:
            if part is not None and any(isinstance(x, ast.Name) and x.id == name for x in ast.walk(part)):
                return None
            if part is not None and any(isinstance(x, (ast.Await, ast.Yield, ast.YieldFrom, ast.NamedExpr)) for x in ast.walk(part)):
                return None
        gen = ast.comprehension(target=nx.target, iter=nx.iter, ifs=[cond] if cond is not None else [], is_async=0)
        comp: ast.expr
        if kind == 'list':
            comp = ast.ListComp(elt=elt, generators=[gen])
        elif kind == 'set':
            comp = ast.SetComp(elt=elt, generators=[gen])
        else:
            comp = ast.DictComp(key=key, value=elt, generators=[gen])
        ast.copy_location(comp, nx)
        new = ast.Assign(targets=[ast.copy_location(ast.Name(id=name, ctx=ast.Store()), tgt)], value=comp)
        return ast.fix_missing_locations(ast.copy_location(new, st))

    @staticmethod
    def _chain_has_else(st: ast.If) -> bool:
        while True:
            if not st.orelse:
                return False
            if len(st.orelse) == 1 and isinstance(st.orelse[0], ast.If):
                st = st.orelse[0]
                continue
            return True

    @staticmethod
    def _arms_to_returns(st: ast.If, r: str, ret: ast.Return) -> bool:
        """Rewrite in place when every arm of the chain is straight-line and at least one ends in `r = X`."""
        arms: List[List[ast.stmt]] = []
        cur = st
        while True:
            arms.append(cur.body)
            if len(cur.orelse) == 1 and isinstance(cur.orelse[0], ast.If):
                cur = cur.orelse[0]
                continue
            if cur.orelse:
                arms.append(cur.orelse)
            break

        def ends_assign(a: List[ast.stmt]) -> bool:
            return bool(a) and isinstance(a[-1], ast.Assign) and len(a[-1].targets) == 1 and isinstance(a[-1].targets[0], ast.Name) and a[-1].targets[0].id == r

        if not any(ends_assign(a) for a in arms):
            return False
        for a in arms:
            if a and isinstance(a[-1], (ast.Return, ast.Raise, ast.Continue, ast.Break)):
                return False
            # `r` may not be read or rebound in the arm before its last statement, nor the arm contain a nested jump
            for b in a[:-1] if ends_assign(a) else a:
                for x in ast.walk(b):
                    if isinstance(x, ast.Name) and x.id == r:
                        return False
        import copy as _copy

        for a in arms:
            if ends_assign(a):
                a[-1] = ast.copy_location(ast.Return(value=a[-1].value), a[-1])
            else:
                a.append(ast.copy_location(ast.Return(value=_copy.deepcopy(ret.value)), ret))
        return True

    def _split_tuples(self, body: List[ast.stmt]) -> List[ast.stmt]:
        """(e) `a, b = x, y` (plain names on the left, as many expressions on the right, no later expression reading an
        earlier target -- i.e. not a swap) -> `a = x; b = y`."""
        out: List[ast.stmt] = []
        for st in body:
            if (isinstance(st, ast.Assign) and len(st.targets) == 1 and isinstance(st.targets[0], ast.Tuple) and isinstance(st.value, ast.Tuple)
                    and len(st.targets[0].elts) == len(st.value.elts) >= 2 and all(isinstance(t, ast.Name) for t in st.targets[0].elts)
                    and not any(isinstance(e, ast.Starred) for e in st.value.elts)):
                names = [t.id for t in st.targets[0].elts]  # type: ignore[attr-defined]
                ok = len(set(names)) == len(names)
                for j, e in enumerate(st.value.elts):
                    reads = {x.id for x in ast.walk(e) if isinstance(x, ast.Name)}
                    if reads & set(names[:j]):
                        ok = False
                if ok:
                    self.rewrites += 1
                    for t, e in zip(st.targets[0].elts, st.value.elts):
                        out.append(ast.copy_location(ast.Assign(targets=[t], value=e), st))
                    continue
            out.append(st)
        return out

    def generic_visit(self, node: ast.AST) -> ast.AST:
        super().generic_visit(node)
        for fld in ('body', 'orelse', 'finalbody'):
            v = getattr(node, fld, None)
            if isinstance(v, list) and v and isinstance(v[0], ast.stmt):
                v = self._split_tuples(v)
                setattr(node, fld, v)
            if isinstance(v, list) and len(v) >= 2 and isinstance(v[0], ast.stmt):
                out: List[ast.stmt] = []
                i = 0
                while i < len(v):
                    st = v[i]
                    nx = v[i + 1] if i + 1 < len(v) else None
                    if (isinstance(st, ast.Assign) and len(st.targets) == 1 and isinstance(st.targets[0], ast.Name) and isinstance(nx, ast.Return)
                            and isinstance(nx.value, ast.Name) and nx.value.id == st.targets[0].id and self._uses):
                        self.rewrites += 1
                        out.append(ast.copy_location(ast.Return(value=st.value), st))
                        i += 2
                        continue
                    # (q) `if k not in d: d[k] = V` (V a fresh empty collection) -> `d.setdefault(k, V)`
                    if (isinstance(st, ast.If) and not st.orelse and len(st.body) == 1 and isinstance(st.test, ast.Compare) and len(st.test.ops) == 1 and isinstance(st.test.ops[0], ast.NotIn)
                            and isinstance(st.body[0], ast.Assign) and len(st.body[0].targets) == 1 and isinstance(st.body[0].targets[0], ast.Subscript)
                            and norm(st.body[0].targets[0].value) == norm(st.test.comparators[0]) and norm(st.body[0].targets[0].slice) == norm(st.test.left)
                            and ((isinstance(st.body[0].value, (ast.List, ast.Dict, ast.Set)) and not getattr(st.body[0].value, 'elts', getattr(st.body[0].value, 'keys', []))) or (isinstance(st.body[0].value, ast.Call) and norm(st.body[0].value) in ('set()', 'dict()', 'list()')))
                            and not any(isinstance(x, (ast.Call, ast.Await)) for x in ast.walk(st.test.left))):
                        self.rewrites += 1
                        callx = ast.Call(func=ast.Attribute(value=st.test.comparators[0], attr='setdefault', ctx=ast.Load()), args=[st.test.left, st.body[0].value], keywords=[])
                        out.append(ast.fix_missing_locations(ast.copy_location(ast.Expr(value=ast.copy_location(callx, st)), st)))
                        i += 1
                        continue
                    # (p) `xs = []` + `for T in IT: [if C:] xs.append(E)` -> `xs = [E for T in IT if C]` (set / dict alike)
                    comp = self._collect_loop(st, nx)
                    if comp is not None:
                        self.rewrites += 1
                        out.append(comp)
                        i += 2
                        continue
                    # (m) `if a: r = X elif b: r = Y else: ...` followed by `return r` -> each arm returns what it assigned
                    if isinstance(st, ast.If) and isinstance(nx, ast.Return) and isinstance(nx.value, ast.Name) and self._arms_to_returns(st, nx.value.id, nx):
                        self.rewrites += 1
                        out.append(st)
                        if not self._chain_has_else(st):
                            out.append(nx)
                        i += 2
                        continue
                    # (h) `if c: return X` + final `raise` -> `if not c: raise` + `return X`
                    if (isinstance(st, ast.If) and not st.orelse and len(st.body) == 1 and isinstance(st.body[0], ast.Return) and isinstance(nx, ast.Raise) and i + 2 == len(v)):
                        self.rewrites += 1
                        ret = st.body[0]
                        st.test = self._nnf(ast.copy_location(ast.UnaryOp(op=ast.Not(), operand=st.test), st.test), True)
                        st.body = [nx]
                        out.append(st)
                        out.append(ret)
                        i += 2
                        continue
                    # (d) `t = e; if t: ...` / `while`-less single use of a condition temp -> `if e: ...`
                    if (isinstance(st, ast.Assign) and len(st.targets) == 1 and isinstance(st.targets[0], ast.Name) and isinstance(nx, ast.If)
                            and self._uses and self._uses[-1].get(st.targets[0].id, 0) == 2):
                        tn = st.targets[0].id
                        tst = nx.test
                        if isinstance(tst, ast.Name) and tst.id == tn:
                            nx.test = st.value
                            self.rewrites += 1
                            i += 1
                            continue
                        if isinstance(tst, ast.UnaryOp) and isinstance(tst.op, ast.Not) and isinstance(tst.operand, ast.Name) and tst.operand.id == tn:
                            tst.operand = st.value
                            self.rewrites += 1
                            i += 1
                            continue
                    out.append(st)
                    i += 1
                setattr(node, fld, out)
        return node


def _as_load(t: ast.AST) -> ast.AST:
    if isinstance(t, ast.Name):
        return ast.Name(id=t.id, ctx=ast.Load())
    if isinstance(t, ast.Attribute):
        return ast.Attribute(value=t.value, attr=t.attr, ctx=ast.Load())
    return t


# attribute names that are also methods of builtin containers / stdlib objects: a call `x.add(...)` may not be the library's
_BUILTIN_METHOD_NAMES = {'add', 'get', 'pop', 'update', 'remove', 'clear', 'copy', 'append', 'extend', 'insert', 'index', 'count', 'write', 'read',
                         'close', 'cancel', 'send', 'sendto', 'set', 'wait', 'put', 'join', 'start', 'run', 'stop', 'items', 'keys', 'values', 'sort',
                         'discard', 'setdefault', 'encode', 'decode', 'format', 'lower', 'upper', 'split', 'strip', 'result', 'done', 'time', 'name'}


class FuncInfo:
    def __init__(self, module: 'Module', cls: Optional['ClassInfo'], node: ast.AST, qual: str) -> None:
        self.module = module
        self.cls = cls
        self.node = node
        self.name = node.name  # type: ignore[attr-defined]
        self.qual = qual  # e.g. Zeroconf.async_send  (within module)
        self.full = f'{module.name}.{qual}'
        self.decorators = [norm(d) for d in node.decorator_list]  # type: ignore[attr-defined]
        self.is_async = isinstance(node, ast.AsyncFunctionDef)

    @property
    def params(self) -> List[str]:
        a = self.node.args  # type: ignore[attr-defined]
        return [x.arg for x in a.posonlyargs + a.args] + [x.arg for x in a.kwonlyargs]

    @property
    def is_property(self) -> bool:
        return 'property' in self.decorators

    @property
    def is_setter(self) -> bool:
        return any(d.endswith('.setter') for d in self.decorators)

    def where(self) -> str:
        return f'{self.module.rel}::{self.qual}'

    def __repr__(self) -> str:
        return f'<Func {self.full}>'


class ClassInfo:
    def __init__(self, module: 'Module', node: ast.ClassDef) -> None:
        self.module = module
        self.node = node
        self.name = node.name
        self.full = f'{module.name}.{node.name}'
        self.methods: Dict[str, FuncInfo] = {}
        self.setters: Dict[str, FuncInfo] = {}
        self.base_exprs = list(node.bases)
        self.bases: List['ClassInfo'] = []  # resolved library bases
        self.ext_bases: List[str] = []  # external bases (text)
        self.subclasses: List['ClassInfo'] = []
        self.slots: Optional[List[str]] = None
        self.class_assigns: Dict[str, ast.AST] = {}

    def mro(self) -> List['ClassInfo']:
        out: List[ClassInfo] = []

        def rec(c: 'ClassInfo') -> None:
            if c in out:
                return
            out.append(c)
            for b in c.bases:
                rec(b)

        rec(self)
        return out

    def find_method(self, name: str) -> Optional[FuncInfo]:
        for c in self.mro():
            if name in c.methods:
                return c.methods[name]
        return None

    def find_setter(self, name: str) -> Optional[FuncInfo]:
        for c in self.mro():
            if name in c.setters:
                return c.setters[name]
        return None

    def all_subclasses(self) -> List['ClassInfo']:
        out: List[ClassInfo] = []
        todo = list(self.subclasses)
        while todo:
            c = todo.pop()
            if c not in out:
                out.append(c)
                todo.extend(c.subclasses)
        return out

    def is_subclass_of(self, other: 'ClassInfo') -> bool:
        return other in self.mro()

    def all_slots(self) -> List[str]:
        out: List[str] = []
        for c in reversed(self.mro()):
            out.extend(c.slots or [])
        return out

    def __repr__(self) -> str:
        return f'<Class {self.full}>'


class Module:
    def __init__(self, name: str, path: str, rel: str, source: str, unstable_attrs: Optional[set] = None, external_names: Optional[set] = None, effects: Optional[dict] = None) -> None:
        self.name = name
        self.path = path
        self.rel = rel
        self.source = source
        self.digest = hashlib.sha256(source.encode()).hexdigest()[:16]
        tree = ast.parse(source, filename=path)
        from .inl import inline_unknown_helpers

        self.inlined_calls, self.inlined_helpers = inline_unknown_helpers(tree, external_names)
        st = _StripTypeChecking()
        cn = _Canonical()
        tree = ast.fix_missing_locations(cn.visit(st.visit(tree)))
        from .lp import propagate_locals, baseline_keep, unroll_literal_loops

        self.unrolled_loops = unroll_literal_loops(tree)
        self.propagated_locals, self.propagated_names = propagate_locals(tree, baseline_keep(rel), unstable_attrs, effects)
        if self.propagated_locals or self.unrolled_loops:
            cn2 = _Canonical()
            tree = ast.fix_missing_locations(cn2.visit(tree))
            cn.rewrites += cn2.rewrites
        self.tree = tree
        self.type_checking_blocks = st.stripped
        self.canonical_rewrites = cn.rewrites
        self.is_package = os.path.basename(path) == '__init__.py'
        self.imports: Dict[str, Tuple[str, ...]] = {}
        self.assigns: Dict[str, ast.AST] = {}
        self.assign_counts: Dict[str, int] = {}
        self.classes: Dict[str, ClassInfo] = {}
        self.functions: Dict[str, FuncInfo] = {}  # qual -> info (incl. methods, nested)
        self.lines = source.count('\n') + 1

    def pkg_of(self) -> str:
        return self.name if self.is_package else self.name.rsplit('.', 1)[0]


class Program:
    def __init__(self, repo: str = '/repo') -> None:
        self.repo = repo
        self.src = os.path.join(repo, 'src')
        self.root = os.path.join(self.src, PKG)
        if not os.path.isdir(self.root):
            raise AnalysisError(f'package directory {self.root} not found')
        self.modules: Dict[str, Module] = {}
        self.classes: Dict[str, ClassInfo] = {}
        self.functions: Dict[str, FuncInfo] = {}
        self._fold_cache: Dict[Tuple[str, str], Any] = {}
        self._load()

    # ------------------------------------------------------------------ load
    def _load(self) -> None:
        shadows = []
        sources: List[Tuple[str, str, str, str]] = []
        for dirpath, dirnames, filenames in os.walk(self.root):
            dirnames[:] = [d for d in sorted(dirnames) if d != '__pycache__']
            for fn in sorted(filenames):
                full = os.path.join(dirpath, fn)
                if fn.endswith(('.so', '.pyd')) or (fn.endswith('.c') and os.path.exists(full[:-2] + '.py')):
                    shadows.append(full)
                if not fn.endswith('.py'):
                    continue
                rel = os.path.relpath(full, self.repo)
                modrel = os.path.relpath(full, self.src)[:-3].replace(os.sep, '.')
                if modrel.endswith('.__init__'):
                    modrel = modrel[: -len('.__init__')]
                with open(full, encoding='utf-8') as fh:
                    src = fh.read()
                sources.append((modrel, full, rel, src))
        # attribute names that any routine of the program (outside constructors) stores to: reads of those are state
        from .lp import stored_attrs

        unstable: set = set()
        for modrel, full, rel, src in sources:
            try:
                unstable |= stored_attrs(ast.parse(src, filename=full))
            except SyntaxError as e:
                raise AnalysisError(f'{rel} does not parse: {e}') from e
        self.unstable_attrs = unstable
        from .inl import names_used

        from .lp import routine_effects

        parsed = {modrel: ast.parse(src, filename=full) for modrel, full, rel, src in sources}
        effects = routine_effects(list(parsed.values()))
        used = {modrel: names_used(t) for modrel, t in parsed.items()}
        for modrel, full, rel, src in sources:
            ext: set = set()
            for other, names in used.items():
                if other != modrel:
                    ext |= names
            self.modules[modrel] = Module(modrel, full, rel, src, unstable, ext, effects)
        if shadows:
            raise AnalysisError(
                'compiled extension(s) shadow analysed modules; the executed program is not the analysed one: '
                + ', '.join(shadows)
            )
        for m in self.modules.values():
            self._index_module(m)
        for m in self.modules.values():
            for c in m.classes.values():
                for b in c.base_exprs:
                    r = self.resolve_expr(m, b)
                    if r and r[0] == 'class':
                        c.bases.append(r[1])
                        r[1].subclasses.append(c)
                    else:
                        c.ext_bases.append(norm(b))
        self.keyword_calls_normalised = self._positional_calls()

    # ------------------------------------------------------------------ canonical call shape
    def signature_of_call(self, m: Module, fn: Optional[FuncInfo], c: ast.Call) -> Optional[List[str]]:
        """Names of the positional-or-keyword parameters the arguments of call `c` bind to (receiver excluded), when
        the callee is known without type inference: a library class or function by name, a method called on the
        enclosing method's own first parameter, or a method name that every library class defining it spells with the
        same parameter list.  None when unknown or when the callee takes *args / **kwargs."""
        def plain(f: FuncInfo, drop_first: bool) -> Optional[List[str]]:
            a = f.node.args  # type: ignore[attr-defined]
            if a.vararg or a.kwarg or a.posonlyargs:
                return None
            ps = [x.arg for x in a.args]
            return ps[1:] if drop_first else ps

        func = c.func
        if isinstance(func, ast.Name):
            r = self.resolve_name(m, func.id)
            if r and r[0] == 'class':
                init = r[1].find_method('__init__')
                return plain(init, True) if init is not None else None
            if r and r[0] == 'func':
                f = r[1]
                return plain(f, False) if f.cls is None else None
            return None
        if isinstance(func, ast.Attribute):
            if fn is not None and fn.cls is not None and fn.params and isinstance(func.value, ast.Name) and func.value.id == fn.params[0] and 'staticmethod' not in fn.decorators:
                t = fn.cls.find_method(func.attr)
                if t is not None:
                    return plain(t, 'staticmethod' not in t.decorators)
            cands = [g for cl in self.classes.values() for n, g in cl.methods.items() if n == func.attr]
            sigs = {tuple(plain(g, 'staticmethod' not in g.decorators) or ['?']) for g in cands}
            if cands and len(sigs) == 1 and '?' not in next(iter(sigs)) and func.attr not in _BUILTIN_METHOD_NAMES:
                return list(next(iter(sigs)))
        return None

    def _positional_calls(self) -> int:
        """Keyword arguments that merely continue the positional prefix are moved into it (`f(a, y=b)` -> `f(a, b)` when
        y is the second parameter), so rules see one shape for a call however its arguments are spelled."""
        n = 0
        for m in self.modules.values():
            owners: List[Tuple[Optional[FuncInfo], ast.AST]] = [(None, m.tree)] + [(f, f.node) for f in m.functions.values()]
            for fn, root in owners:
                it = walk_local_ordered(root) if fn is not None else ast.walk(root)
                for c in it:
                    if not isinstance(c, ast.Call) or not c.keywords or any(k.arg is None for k in c.keywords) or any(isinstance(a, ast.Starred) for a in c.args):
                        continue
                    if fn is None and any(c is x for f2 in m.functions.values() for x in ast.walk(f2.node)):
                        continue
                    sig = self.signature_of_call(m, fn, c)
                    if sig is None:
                        continue
                    kw = {k.arg: k for k in c.keywords}
                    moved = False
                    while len(c.args) < len(sig) and sig[len(c.args)] in kw:
                        k = kw.pop(sig[len(c.args)])
                        c.args.append(k.value)
                        c.keywords.remove(k)
                        moved = True
                    n += 1 if moved else 0
        return n

    def _index_module(self, m: Module) -> None:
        def add_func(node: ast.AST, cls: Optional[ClassInfo], prefix: str) -> None:
            qual = prefix + node.name  # type: ignore[attr-defined]
            fi = FuncInfo(m, cls, node, qual)
            if cls is not None and prefix == cls.name + '.':
                if fi.is_setter:
                    cls.setters[fi.name] = fi
                    qual = qual + '.setter'
                    fi.qual = qual
                    fi.full = f'{m.name}.{qual}'
                else:
                    cls.methods[fi.name] = fi
            m.functions[qual] = fi
            self.functions[fi.full] = fi
            for sub in walk_local(node):
                if isinstance(sub, (ast.FunctionDef, ast.AsyncFunctionDef)):
                    add_func(sub, None, qual + '.<locals>.')

        def visit_body(body: List[ast.stmt]) -> None:
            for st in body:
                if isinstance(st, ast.Import):
                    for a in st.names:
                        m.imports[a.asname or a.name.split('.')[0]] = ('module', a.name if a.asname else a.name.split('.')[0])
                elif isinstance(st, ast.ImportFrom):
                    base = self._resolve_relative(m, st.module, st.level)
                    for a in st.names:
                        m.imports[a.asname or a.name] = ('from', base, a.name)
                elif isinstance(st, ast.Assign):
                    for t in st.targets:
                        if isinstance(t, ast.Name):
                            m.assigns[t.id] = st.value
                            m.assign_counts[t.id] = m.assign_counts.get(t.id, 0) + 1
                elif isinstance(st, ast.AnnAssign) and isinstance(st.target, ast.Name) and st.value is not None:
                    m.assigns[st.target.id] = st.value
                    m.assign_counts[st.target.id] = m.assign_counts.get(st.target.id, 0) + 1
                elif isinstance(st, ast.ClassDef):
                    ci = ClassInfo(m, st)
                    m.classes[st.name] = ci
                    self.classes[ci.full] = ci
                    for cs in st.body:
                        if isinstance(cs, (ast.FunctionDef, ast.AsyncFunctionDef)):
                            add_func(cs, ci, st.name + '.')
                        elif isinstance(cs, ast.Assign):
                            for t in cs.targets:
                                if isinstance(t, ast.Name):
                                    ci.class_assigns[t.id] = cs.value
                                    if t.id == '__slots__':
                                        try:
                                            v = ast.literal_eval(cs.value)
                                            ci.slots = [v] if isinstance(v, str) else list(v)
                                        except Exception:  # noqa: BLE001
                                            ci.slots = None
                        elif isinstance(cs, ast.AnnAssign) and isinstance(cs.target, ast.Name) and cs.value:
                            ci.class_assigns[cs.target.id] = cs.value
                elif isinstance(st, (ast.FunctionDef, ast.AsyncFunctionDef)):
                    add_func(st, None, '')
                elif isinstance(st, (ast.If, ast.Try)):
                    # version / platform switches at module level: index every arm
                    for fld in ('body', 'orelse', 'finalbody'):
                        visit_body(getattr(st, fld, []) or [])
                    for h in getattr(st, 'handlers', []) or []:
                        visit_body(h.body)

        visit_body(m.tree.body)

    def _resolve_relative(self, m: Module, module: Optional[str], level: int) -> str:
        if level == 0:
            return module or ''
        pkg = m.pkg_of().split('.')
        if level > 1:
            pkg = pkg[: len(pkg) - (level - 1)]
        return '.'.join(pkg + ([module] if module else []))

    # --------------------------------------------------------------- resolve
    def resolve_name(self, m: Module, name: str, _depth: int = 0) -> Optional[Tuple[Any, ...]]:
        """Resolve a module-level name to ('class', ClassInfo) | ('func', FuncInfo) |
        ('const', Module, name, expr) | ('module', modname) | ('ext', dotted)."""
        if _depth > 20:
            return None
        if name in m.classes:
            return ('class', m.classes[name])
        if name in m.functions and m.functions[name].cls is None:
            return ('func', m.functions[name])
        if name in m.assigns:
            v = m.assigns[name]
            if isinstance(v, (ast.Name, ast.Attribute)):
                r = self.resolve_expr(m, v, _depth + 1)
                if r is not None:
                    return r
            return ('const', m, name, v)
        if name in m.imports:
            imp = m.imports[name]
            if imp[0] == 'module':
                if imp[1] in self.modules:
                    return ('module', imp[1])
                return ('ext', imp[1])
            _, base, attr = imp
            if f'{base}.{attr}' in self.modules:
                return ('module', f'{base}.{attr}')
            if base in self.modules:
                return self.resolve_name(self.modules[base], attr, _depth + 1)
            return ('ext', f'{base}.{attr}')
        return None

    def resolve_expr(self, m: Module, e: ast.AST, _depth: int = 0) -> Optional[Tuple[Any, ...]]:
        if isinstance(e, ast.Name):
            return self.resolve_name(m, e.id, _depth)
        if isinstance(e, ast.Attribute):
            base = self.resolve_expr(m, e.value, _depth)
            if base is None:
                return None
            if base[0] == 'module':
                return self.resolve_name(self.modules[base[1]], e.attr, _depth + 1)
            if base[0] == 'ext':
                return ('ext', f'{base[1]}.{e.attr}')
            if base[0] == 'class':
                ci: ClassInfo = base[1]
                f = ci.find_method(e.attr)
                if f is not None:
                    return ('func', f)
                for c in ci.mro():
                    if e.attr in c.class_assigns:
                        return ('classattr', c, e.attr, c.class_assigns[e.attr])
                return None
            if base[0] == 'classattr' and e.attr == 'value':
                return ('const', base[1].module, f'{base[1].name}.{base[2]}', base[3])
        return None

    # ------------------------------------------------------------------ fold
    def fold(self, m: Module, e: ast.AST, env: Optional[Dict[str, Any]] = None) -> Any:
        """Fold an expression to a Python constant, following module constants
        across modules.  Raises NotConst."""
        env = env or {}
        if isinstance(e, ast.Constant):
            return e.value
        if isinstance(e, ast.Name):
            if e.id in env:
                return env[e.id]
            if e.id in ('True', 'False', 'None'):
                return {'True': True, 'False': False, 'None': None}[e.id]
            r = self.resolve_name(m, e.id)
            if r is None:
                raise NotConst(e.id)
            if r[0] == 'const':
                key = (r[1].name, r[2])
                if key in self._fold_cache:
                    return self._fold_cache[key]
                if r[1].assign_counts.get(r[2], 1) > 1:
                    raise NotConst(f'{r[2]} assigned more than once')
                v = self.fold(r[1], r[3])
                self._fold_cache[key] = v
                return v
            raise NotConst(e.id)
        if isinstance(e, ast.Attribute):
            r = self.resolve_expr(m, e)
            if r and r[0] == 'const':
                return self.fold(r[1], r[3])
            if r and r[0] == 'ext':
                return ExtRef(r[1])
            raise NotConst(norm(e))
        if isinstance(e, ast.UnaryOp):
            v = self.fold(m, e.operand, env)
            if isinstance(e.op, ast.USub):
                return -v
            if isinstance(e.op, ast.UAdd):
                return +v
            if isinstance(e.op, ast.Not):
                return not v
            if isinstance(e.op, ast.Invert):
                return ~v
        if isinstance(e, ast.BinOp):
            a = self.fold(m, e.left, env)
            b = self.fold(m, e.right, env)
            ops = {
                ast.Add: lambda: a + b, ast.Sub: lambda: a - b, ast.Mult: lambda: a * b,
                ast.Div: lambda: a / b, ast.FloorDiv: lambda: a // b, ast.Mod: lambda: a % b,
                ast.BitOr: lambda: a | b, ast.BitAnd: lambda: a & b, ast.BitXor: lambda: a ^ b,
                ast.LShift: lambda: a << b, ast.RShift: lambda: a >> b, ast.Pow: lambda: a ** b,
            }
            try:
                return ops[type(e.op)]()
            except Exception as ex:  # noqa: BLE001
                raise NotConst(norm(e)) from ex
        if isinstance(e, (ast.Tuple, ast.List, ast.Set)):
            items: List[Any] = []
            for el in e.elts:
                if isinstance(el, ast.Starred):
                    items.extend(self.fold(m, el.value, env))
                else:
                    items.append(self.fold(m, el, env))
            if isinstance(e, ast.Tuple):
                return tuple(items)
            if isinstance(e, ast.List):
                return list(items)
            return frozenset(items)
        if isinstance(e, ast.Dict):
            return {self.fold(m, k, env): self.fold(m, v, env) for k, v in zip(e.keys, e.values) if k is not None}
        if isinstance(e, ast.Subscript):
            v = self.fold(m, e.value, env)
            i = self.fold(m, e.slice, env)
            try:
                return v[i]
            except Exception as ex:  # noqa: BLE001
                raise NotConst(norm(e)) from ex
        if isinstance(e, ast.Call):
            fn = norm(e.func)
            if fn == 'len' and len(e.args) == 1:
                return len(self.fold(m, e.args[0], env))
            if fn in ('re.compile',) and e.args:
                pat = self.fold(m, e.args[0], env)
                flags = self.fold(m, e.args[1], env) if len(e.args) > 1 else 0
                return RegexConst(pat, flags)
            if isinstance(e.func, ast.Attribute) and e.func.attr == 'copy' and not e.args:
                return self.fold(m, e.func.value, env)
            if fn in ('frozenset', 'set', 'tuple') and len(e.args) == 1:
                v = self.fold(m, e.args[0], env)
                return frozenset(v) if fn != 'tuple' else tuple(v)
            if fn in ('min', 'max') and e.args:
                vals = [self.fold(m, a, env) for a in e.args]
                if len(vals) == 1:
                    vals = list(vals[0])
                return (min if fn == 'min' else max)(vals)
        if isinstance(e, ast.Compare) and len(e.ops) == 1:
            a = self.fold(m, e.left, env)
            b = self.fold(m, e.comparators[0], env)
            op = e.ops[0]
            table = {
                ast.Eq: lambda: a == b, ast.NotEq: lambda: a != b, ast.Lt: lambda: a < b,
                ast.LtE: lambda: a <= b, ast.Gt: lambda: a > b, ast.GtE: lambda: a >= b,
                ast.In: lambda: a in b, ast.NotIn: lambda: a not in b,
            }
            if type(op) in table:
                return table[type(op)]()
        raise NotConst(norm(e))

    def const(self, module: str, name: str) -> Any:
        """Folded value of module constant; AnalysisError if it vanished."""
        m = self.module(module)
        if name not in m.assigns:
            raise AnalysisError(f'anchor vanished: constant {module}.{name}')
        try:
            return self.fold(m, ast.Name(id=name, ctx=ast.Load()))
        except NotConst as e:
            raise AnalysisError(f'constant {module}.{name} does not fold: {e}') from e

    def try_fold(self, m: Module, e: ast.AST, env: Optional[Dict[str, Any]] = None) -> Tuple[bool, Any]:
        try:
            return True, self.fold(m, e, env)
        except (NotConst, RecursionError):
            return False, None

    # --------------------------------------------------------------- anchors
    def module(self, name: str) -> Module:
        if name not in self.modules:
            raise AnalysisError(f'anchor vanished: module {name}')
        return self.modules[name]

    def cls(self, full: str) -> ClassInfo:
        if full not in self.classes:
            raise AnalysisError(f'anchor vanished: class {full}')
        return self.classes[full]

    def func(self, full: str) -> FuncInfo:
        if full not in self.functions:
            raise AnalysisError(f'anchor vanished: function {full}')
        return self.functions[full]

    def has_func(self, full: str) -> bool:
        return full in self.functions

    def digest(self) -> str:
        h = hashlib.sha256()
        for n in sorted(self.modules):
            h.update(n.encode())
            h.update(self.modules[n].digest.encode())
        return h.hexdigest()[:16]

    def stats(self) -> Dict[str, Any]:
        return {
            'modules': len(self.modules),
            'classes': len(self.classes),
            'functions': len(self.functions),
            'lines': sum(m.lines for m in self.modules.values()),
            # what the normal forms did to the tree before any rule read it (DESIGN.md 10.10)
            'normal_forms': {
                'helpers_inlined': sorted({h for m in self.modules.values() for h in m.inlined_helpers}),
                'inlined_calls': sum(m.inlined_calls for m in self.modules.values()),
                'canonical_rewrites': sum(m.canonical_rewrites for m in self.modules.values()),
                'literal_loops_unrolled': sum(m.unrolled_loops for m in self.modules.values()),
                'transparent_locals': sum(m.propagated_locals for m in self.modules.values()),
                'type_checking_blocks_stripped': sum(m.type_checking_blocks for m in self.modules.values()),
            },
        }


class ExtRef:
    def __init__(self, dotted: str) -> None:
        self.dotted = dotted

    def __repr__(self) -> str:
        return f'ExtRef({self.dotted})'

    def __eq__(self, o: Any) -> bool:
        return isinstance(o, ExtRef) and o.dotted == self.dotted

    def __hash__(self) -> int:
        return hash(self.dotted)


class RegexConst:
    def __init__(self, pattern: str, flags: int) -> None:
        self.pattern = pattern
        self.flags = flags

    def __repr__(self) -> str:
        return f'RegexConst({self.pattern!r}, {self.flags})'


# -------------------------------------------------------------- AST utilities
def find_calls(node: ast.AST, pred: Any = None) -> List[ast.Call]:
    out = [n for n in walk_local_ordered(node) if isinstance(n, ast.Call) and (pred is None or pred(n))]
    return out


def call_name(c: ast.Call) -> str:
    """Last component of the callee (`a.b.c(...)` -> 'c', `f(...)` -> 'f')."""
    f = c.func
    if isinstance(f, ast.Attribute):
        return f.attr
    if isinstance(f, ast.Name):
        return f.id
    return ''


def self_attr(node: ast.AST, selfname: str = 'self') -> Optional[str]:
    """`self.x` -> 'x'."""
    if isinstance(node, ast.Attribute) and isinstance(node.value, ast.Name) and node.value.id == selfname:
        return node.attr
    return None


def stmt_key(node: ast.AST) -> str:
    t = norm(node)
    t = re.sub(r'\s+', ' ', t)
    return t if len(t) <= 160 else t[:157] + '...'

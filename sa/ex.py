"""EX -- may-raise / escape analysis.

Per function: the set of exception classes that may leave it.  Sources: every
explicit `raise` and run-time `assert`; in *hardened* functions additionally a
catalogue of implicit sources keyed by (operation, operand type).  Propagation
along resolved call edges to a fixpoint; subtraction at try/except using the
class hierarchy (library + builtins + stdlib) and at contextlib.suppress.  An
operation the catalogue does not know inside a hardened function is
UNCLASSIFIED -> AnalysisError (exit 2), never a silent pass."""
from __future__ import annotations

import ast
import builtins
import importlib
from typing import Any, Callable, Dict, List, Optional, Set, Tuple

from . import AnalysisError
from .cg import TASK_APIS, CallGraph
from .pm import ClassInfo, FuncInfo, Module, Program, call_name, norm, walk_local_ordered

ExKey = str


class Origin:
    __slots__ = ('where', 'line', 'text', 'chain')

    def __init__(self, where: str, line: int, text: str, chain: Optional[List[str]] = None) -> None:
        self.where = where
        self.line = line
        self.text = text
        self.chain = chain or []

    def via(self, step: str) -> 'Origin':
        if len(self.chain) > 12:
            return self
        return Origin(self.where, self.line, self.text, [step] + self.chain)

    def describe(self) -> List[str]:
        return self.chain + [f'{self.where}:{self.line} `{self.text}`']


class Hierarchy:
    def __init__(self, prog: Program) -> None:
        self.prog = prog
        self._real: Dict[str, Any] = {}

    def keys_of(self, m: Module, e: Optional[ast.AST]) -> Optional[List[ExKey]]:
        """Exception class key(s) denoted by an expression in raise / except position."""
        if e is None:
            return ['builtins.BaseException']
        if isinstance(e, ast.Call):
            e = e.func
        if isinstance(e, ast.Tuple):
            out: List[ExKey] = []
            for x in e.elts:
                k = self.keys_of(m, x)
                if k is None:
                    return None
                out.extend(k)
            return out
        r = self.prog.resolve_expr(m, e)
        if r is not None:
            if r[0] == 'class':
                return [r[1].full]
            if r[0] == 'ext':
                return [r[1]]
            if r[0] == 'const' and isinstance(r[3], ast.Tuple):
                return self.keys_of(r[1], r[3])
        if isinstance(e, ast.Name) and isinstance(getattr(builtins, e.id, None), type) and issubclass(getattr(builtins, e.id), BaseException):
            return ['builtins.' + e.id]
        return None

    def real(self, key: ExKey) -> Optional[type]:
        if key in self._real:
            return self._real[key]
        cls: Optional[type] = None
        if key.startswith('builtins.'):
            cls = getattr(builtins, key.split('.', 1)[1], None)
        elif not key.startswith('zeroconf.'):
            mod, _, nm = key.rpartition('.')
            try:
                cls = getattr(importlib.import_module(mod), nm, None)
            except Exception:  # noqa: BLE001
                cls = None
        self._real[key] = cls
        return cls

    def first_real_ancestor(self, key: ExKey) -> Optional[type]:
        if not key.startswith('zeroconf.'):
            return self.real(key)
        ci = self.prog.classes.get(key)
        if ci is None:
            return None
        for c in ci.mro():
            for eb in c.ext_bases:
                r = getattr(builtins, eb, None)
                if isinstance(r, type):
                    return r
        return Exception

    def is_sub(self, a: ExKey, b: ExKey) -> bool:
        if a == b:
            return True
        if b.startswith('zeroconf.'):
            ca, cb = self.prog.classes.get(a), self.prog.classes.get(b)
            return bool(ca and cb and cb in ca.mro())
        rb = self.real(b)
        ra = self.first_real_ancestor(a)
        if rb is None or ra is None:
            return False
        return issubclass(ra, rb)


# --------------------------------------------------------------- catalogue
SAFE_EXT = {
    'builtins.len', 'builtins.isinstance', 'builtins.range', 'builtins.enumerate', 'builtins.hash', 'builtins.str',
    'builtins.bool', 'builtins.list', 'builtins.set', 'builtins.tuple', 'builtins.frozenset', 'builtins.sorted',
    'builtins.min', 'builtins.max', 'builtins.repr', 'builtins.bytes', 'builtins.type', 'builtins.reversed', 'builtins.dict',
    'builtins.super', 'builtins.id', 'builtins.ord', 'builtins.sum', 'builtins.any', 'builtins.all', 'builtins.zip', 'builtins.hasattr',
    'builtins.object.__init__',
    'builtins.str.lower', 'builtins.str.upper', 'builtins.str.join', 'builtins.str.encode', 'builtins.str.endswith', 'builtins.str.startswith',
    'builtins.str.split', 'builtins.str.format', 'builtins.str.partition', 'builtins.str.rpartition', 'builtins.str.strip', 'builtins.str.replace',
    'builtins.bytes.partition', 'builtins.bytes.join', 'builtins.bytes.startswith', 'builtins.bytes.endswith',
    'builtins.list.append', 'builtins.list.extend', 'builtins.list.reverse', 'builtins.list.copy', 'builtins.list.clear', 'builtins.list.insert', 'builtins.list.sort',
    'builtins.set.add', 'builtins.set.discard', 'builtins.set.copy', 'builtins.set.update', 'builtins.set.clear', 'builtins.set.intersection',
    'builtins.dict.get', 'builtins.dict.setdefault', 'builtins.dict.items', 'builtins.dict.values', 'builtins.dict.keys', 'builtins.dict.copy', 'builtins.dict.clear', 'builtins.dict.update',
    'builtins.dict.__init__', 'builtins.list.__init__', 'builtins.set.__init__', 'builtins.str.__init__', 'builtins.tuple.__init__', 'builtins.frozenset.__init__', 'builtins.bool.__init__', 'builtins.bytes.__init__',
    'builtins.object.__new__', 'builtins.range.__init__', 'builtins.enumerate.__init__', 'builtins.type.__init__', 'builtins.reversed.__init__', 'builtins.zip.__init__',
    're.Pattern.search', 're.Pattern.match', 're.Pattern.fullmatch', 'sys.exc_info', 'time.monotonic',
    'typing.cast',
}
# total methods of the built-in text / container types (no exception for arguments of the declared types); listed so that a
# harmless respelling (`.casefold()`, `.rstrip()`, `.union()`) is classified instead of stopping the analysis
SAFE_EXT |= {f'builtins.str.{m}' for m in (
    'casefold', 'title', 'capitalize', 'swapcase', 'lstrip', 'rstrip', 'splitlines', 'rsplit', 'isdigit', 'isalpha', 'isalnum',
    'isascii', 'isspace', 'islower', 'isupper', 'isnumeric', 'isdecimal', 'isidentifier', 'isprintable', 'istitle', 'find',
    'rfind', 'count', 'zfill', 'expandtabs', 'removeprefix', 'removesuffix')}
SAFE_EXT |= {f'builtins.{t}.{m}' for t in ('bytes', 'bytearray') for m in (
    'lower', 'upper', 'strip', 'lstrip', 'rstrip', 'find', 'rfind', 'count', 'replace', 'hex', 'isascii', 'isdigit', 'isalpha',
    'isalnum', 'isspace', 'rpartition', 'partition', 'removeprefix', 'removesuffix', 'split', 'rsplit', 'splitlines', 'startswith',
    'endswith', 'join')}
SAFE_EXT |= {f'builtins.{t}.{m}' for t in ('set', 'frozenset') for m in (
    'union', 'difference', 'intersection', 'symmetric_difference', 'issubset', 'issuperset', 'isdisjoint', 'copy')}
SAFE_EXT |= {'builtins.set.intersection_update', 'builtins.set.difference_update', 'builtins.set.symmetric_difference_update',
             'builtins.list.count', 'builtins.tuple.count', 'builtins.dict.fromkeys', 'builtins.bytearray.extend', 'builtins.bytearray.append',
             'builtins.bytearray.clear', 'builtins.bytearray.copy'}
# ordering without a key: total only when the elements are orderable (decided from the static element type, everywhere)
ORDERING_EXT = {'builtins.sorted', 'builtins.min', 'builtins.max', 'builtins.list.sort'}
# external calls that raise on malformed input whatever the caller is (charged inside and outside the hardened region): the
# address parsers of the standard library -- their argument is rdata or text built from rdata
ALWAYS_RAISING_EXT: Dict[str, List[ExKey]] = {
    'ipaddress.IPv4Address.__init__': ['ipaddress.AddressValueError'],
    'ipaddress.IPv6Address.__init__': ['ipaddress.AddressValueError'],
    'ipaddress.IPv4Address': ['ipaddress.AddressValueError'],
    'ipaddress.IPv6Address': ['ipaddress.AddressValueError'],
    'ipaddress.ip_address': ['builtins.ValueError'],
    'ipaddress.ip_network': ['builtins.ValueError'],
    'ipaddress.ip_interface': ['builtins.ValueError'],
    'socket.inet_aton': ['builtins.OSError'],
    'socket.inet_pton': ['builtins.OSError'],
}
RAISING_EXT: Dict[str, List[ExKey]] = {
    'builtins.list.pop': ['builtins.IndexError'],
    'builtins.list.remove': ['builtins.ValueError'],
    'builtins.list.index': ['builtins.ValueError'],
    'builtins.set.remove': ['builtins.KeyError'],
    'builtins.set.pop': ['builtins.KeyError'],
    'builtins.dict.popitem': ['builtins.KeyError'],
    'builtins.int': ['builtins.ValueError'],
    'builtins.int.__init__': ['builtins.ValueError'],
    'builtins.float': ['builtins.ValueError'],
    'builtins.float.__init__': ['builtins.ValueError'],
    'builtins.next': ['builtins.StopIteration'],
    'builtins.getattr': ['builtins.AttributeError'],
    'builtins.str.index': ['builtins.ValueError'],
    'builtins.str.rindex': ['builtins.ValueError'],
    'builtins.bytes.index': ['builtins.ValueError'],
    'builtins.bytes.rindex': ['builtins.ValueError'],
    'builtins.tuple.index': ['builtins.ValueError'],
    'builtins.bytearray.pop': ['builtins.IndexError'],
}
SEQ_TYPES = {'builtins.bytes', 'builtins.str', 'builtins.list', 'builtins.bytearray', 'builtins.memoryview', 'builtins.tuple', 'collections.deque'}
MAP_TYPES = {'builtins.dict', 'collections.OrderedDict', 'collections.defaultdict'}


class MayRaise:
    def __init__(
        self,
        ctx: Any,
        hardened: Callable[[FuncInfo], bool],
        recursion_guard: Optional[Callable[[FuncInfo, ast.Call], bool]] = None,
        discharge: Optional[Callable[[FuncInfo, ast.AST, ExKey], bool]] = None,
        include_explicit_everywhere: bool = True,
        strict_text: bool = False,
    ) -> None:
        # strict_text: assumption A4 (text is well-formed Unicode, so encoding it cannot fail) is NOT made inside the hardened
        # region -- a strict str.encode there is charged UnicodeEncodeError (used where the input is any Python string at all)
        self.strict_text = strict_text
        self.ctx = ctx
        self.prog: Program = ctx.prog
        self.cg: CallGraph = ctx.cg
        self.ty = ctx.ty
        self.h = Hierarchy(self.prog)
        self.hardened = hardened
        self.recursion_guard = recursion_guard
        self.discharge = discharge
        # function -> {(exception key, origin function, origin line): Origin}; one entry per escaping raise *site*
        self.summ: Dict[str, Dict[Any, Origin]] = {}
        self.unclassified: List[str] = []
        self.n_explicit = 0
        self.n_asserts = 0
        self.n_implicit = 0
        self.n_discharged = 0
        self.scope: List[FuncInfo] = []
        self._sites: Dict[int, Any] = {}
        self._counted: Set[int] = set()

    # ------------------------------------------------------------ driver
    def analyse(self, roots: List[FuncInfo]) -> None:
        self.scope = self.cg.closure(roots, include_deferred=False)
        for f in self.scope:
            self.summ[f.full] = {}
            for s in self.cg.sites_in(f):
                self._sites[id(s.node)] = s
        # recursion: functions on a call-graph cycle within scope
        self._cyclic = self._cycles()
        changed = True
        rounds = 0
        while changed:
            rounds += 1
            if rounds > 60:
                raise AnalysisError('may-raise fixpoint did not converge')
            changed = False
            for f in self.scope:
                new = self._function(f)
                old = self.summ[f.full]
                if set(new) != set(old):
                    self.summ[f.full] = new
                    changed = True
        self.rounds = rounds
        if self.unclassified:
            u = sorted(set(self.unclassified))
            raise AnalysisError('UNCLASSIFIED operation(s) in a hardened region: ' + '; '.join(u[:8]) + (f' (+{len(u) - 8} more)' if len(u) > 8 else ''))

    def _cycles(self) -> Set[Tuple[str, str]]:
        """Edges (caller.full, callee.full) that lie on a cycle of the in-scope call graph."""
        names = {f.full: f for f in self.scope}
        succ: Dict[str, Set[str]] = {n: set() for n in names}
        for f in self.scope:
            for s in self.cg.sites_in(f):
                if s.kind == 'deferred':
                    continue
                for t in s.targets:
                    if t.full in names:
                        succ[f.full].add(t.full)

        def reaches(a: str, b: str) -> bool:
            seen = set()
            todo = [a]
            while todo:
                x = todo.pop()
                if x == b:
                    return True
                if x in seen:
                    continue
                seen.add(x)
                todo.extend(succ[x])
            return False

        out = set()
        for a in names:
            for b in succ[a]:
                if reaches(b, a):
                    out.add((a, b))
        return out

    def escaping(self, f: FuncInfo) -> Dict[Any, Origin]:
        """{(exception key, origin function, origin line): Origin} escaping f."""
        return self.summ.get(f.full, {})

    # ---------------------------------------------------------- functions
    def _function(self, f: FuncInfo) -> Dict[ExKey, Origin]:
        self._f = f
        self._hard = self.hardened(f)
        self._detached = self._detached_calls(f)
        out: Dict[ExKey, Origin] = {}
        # default-argument expressions are evaluated at def time: ignored
        self._merge(out, self._stmts(f.node.body, {}))  # type: ignore[attr-defined]
        return out

    def _detached_calls(self, f: FuncInfo) -> Set[int]:
        out: Set[int] = set()
        for n in walk_local_ordered(f.node):
            if isinstance(n, ast.Call) and call_name(n) in TASK_APIS and call_name(n) not in ('gather', 'wait_for', 'run_coro_with_timeout'):
                for a in n.args:
                    if isinstance(a, ast.Call):
                        out.add(id(a))
        return out

    @staticmethod
    def _merge(into: Dict[ExKey, Origin], frm: Dict[ExKey, Origin]) -> None:
        for k, o in frm.items():
            if k not in into:
                into[k] = o

    def _stmts(self, body: List[ast.stmt], reraise: Dict[ExKey, Origin]) -> Dict[ExKey, Origin]:
        out: Dict[ExKey, Origin] = {}
        for st in body:
            self._merge(out, self._stmt(st, reraise))
        return out

    def _catches(self, handler_keys: List[ExKey], key: ExKey) -> bool:
        return any(self.h.is_sub(key, hk) for hk in handler_keys)

    def _stmt(self, st: ast.stmt, reraise: Dict[ExKey, Origin]) -> Dict[ExKey, Origin]:
        f = self._f
        m = f.module
        out: Dict[ExKey, Origin] = {}
        if isinstance(st, ast.Try):
            body = self._stmts(st.body, reraise)
            remaining = dict(body)
            for h in st.handlers:
                hk = self.h.keys_of(m, h.type)
                if hk is None:
                    raise AnalysisError(f'{f.where()}:{h.lineno}: cannot resolve handler type `{norm(h.type)}`')  # type: ignore[arg-type]
                caught = {k: o for k, o in remaining.items() if self._catches(hk, k[0])}
                for k in caught:
                    del remaining[k]
                self._merge(out, self._stmts(h.body, caught))
            self._merge(out, remaining)
            self._merge(out, self._stmts(st.orelse, reraise))
            self._merge(out, self._stmts(st.finalbody, reraise))
            return out
        if isinstance(st, (ast.With, ast.AsyncWith)):
            suppress: List[ExKey] = []
            for it in st.items:
                ce = it.context_expr
                if isinstance(ce, ast.Call) and norm(ce.func).endswith('suppress'):
                    for a in ce.args:
                        k = self.h.keys_of(m, a)
                        if k is None:
                            raise AnalysisError(f'{f.where()}:{st.lineno}: cannot resolve suppressed type `{norm(a)}`')
                        suppress.extend(k)
                else:
                    self._merge(out, self._expr(ce))
            body = self._stmts(st.body, reraise)
            self._merge(out, {k: o for k, o in body.items() if not self._catches(suppress, k[0])})
            return out
        if isinstance(st, ast.If):
            self._merge(out, self._expr(st.test))
            self._merge(out, self._stmts(st.body, reraise))
            self._merge(out, self._stmts(st.orelse, reraise))
            return out
        if isinstance(st, ast.While):
            self._merge(out, self._expr(st.test))
            self._merge(out, self._stmts(st.body, reraise))
            self._merge(out, self._stmts(st.orelse, reraise))
            return out
        if isinstance(st, (ast.For, ast.AsyncFor)):
            self._merge(out, self._expr(st.iter))
            if self._hard:
                self._unpack_target(st.target, st.iter, out, elementwise=True)
            self._merge(out, self._stmts(st.body, reraise))
            self._merge(out, self._stmts(st.orelse, reraise))
            return out
        if isinstance(st, ast.Raise):
            if st.exc is None:
                self._merge(out, reraise)
                return out
            self._merge(out, self._expr(st.exc))
            keys = self.h.keys_of(m, st.exc)
            if keys is None:
                # `raise ex` of a bound handler variable: treat as re-raise
                if isinstance(st.exc, ast.Name) and reraise:
                    self._merge(out, reraise)
                    return out
                raise AnalysisError(f'{f.where()}:{st.lineno}: cannot resolve raised class `{norm(st.exc)}`')
            if id(st) not in self._counted:
                self._counted.add(id(st))
                self.n_explicit += 1
            for k in keys:
                out.setdefault((k, f.where(), st.lineno), Origin(f.where(), st.lineno, norm(st)[:100]))
            return out
        if isinstance(st, ast.Assert):
            if id(st) not in self._counted:
                self._counted.add(id(st))
                self.n_asserts += 1
            self._merge(out, self._expr(st.test))
            out.setdefault(('builtins.AssertionError', f.where(), st.lineno), Origin(f.where(), st.lineno, norm(st)[:100]))
            return out
        if isinstance(st, (ast.FunctionDef, ast.AsyncFunctionDef, ast.ClassDef)):
            return out
        if isinstance(st, ast.Return):
            if st.value is not None:
                self._merge(out, self._expr(st.value))
            return out
        if isinstance(st, ast.Expr):
            return self._expr(st.value)
        if isinstance(st, ast.Assign):
            self._merge(out, self._expr(st.value))
            for t in st.targets:
                self._merge(out, self._target(t))
                if self._hard and isinstance(t, (ast.Tuple, ast.List)):
                    self._unpack_target(t, st.value, out, elementwise=False)
            return out
        if isinstance(st, ast.AnnAssign):
            if st.value is not None:
                self._merge(out, self._expr(st.value))
                self._merge(out, self._target(st.target))
            return out
        if isinstance(st, ast.AugAssign):
            self._merge(out, self._expr(st.value))
            self._merge(out, self._target(st.target))
            if self._hard and isinstance(st.op, (ast.Div, ast.FloorDiv, ast.Mod)):
                self._div(st.value, st, out)
            return out
        if isinstance(st, ast.Delete):
            for t in st.targets:
                if isinstance(t, ast.Subscript):
                    self._merge(out, self._expr(t.value))
                    self._merge(out, self._expr(t.slice))
                    if self._hard and not isinstance(t.slice, ast.Slice):
                        self._subscript(t, out, store=False)
            return out
        if isinstance(st, (ast.Pass, ast.Break, ast.Continue, ast.Global, ast.Nonlocal, ast.Import, ast.ImportFrom)):
            return out
        if self._hard:
            self.unclassified.append(f'{f.where()}:{st.lineno} statement {type(st).__name__}')
        return out

    def _target(self, t: ast.AST) -> Dict[ExKey, Origin]:
        out: Dict[ExKey, Origin] = {}
        if isinstance(t, ast.Subscript):
            self._merge(out, self._expr(t.value))
            self._merge(out, self._expr(t.slice))
            if self._hard:
                self._subscript(t, out, store=True)
        elif isinstance(t, ast.Attribute):
            self._merge(out, self._expr(t.value))
        elif isinstance(t, (ast.Tuple, ast.List)):
            for e in t.elts:
                self._merge(out, self._target(e))
        elif isinstance(t, ast.Starred):
            self._merge(out, self._target(t.value))
        return out

    # -------------------------------------------------------- expressions
    def _expr(self, e: ast.AST) -> Dict[ExKey, Origin]:
        out: Dict[ExKey, Origin] = {}
        f = self._f
        for n in walk_local_ordered(e):
            if isinstance(n, (ast.Lambda, ast.FunctionDef, ast.AsyncFunctionDef, ast.ClassDef)):
                continue
            if isinstance(n, ast.Call):
                self._call(n, out)
            elif self._hard:
                if isinstance(n, ast.Subscript) and isinstance(n.ctx, ast.Load):
                    self._subscript(n, out, store=False)
                elif isinstance(n, ast.BinOp) and isinstance(n.op, (ast.Div, ast.FloorDiv, ast.Mod)):
                    self._div(n.right, n, out, left=n.left)
                elif isinstance(n, (ast.ListComp, ast.SetComp, ast.DictComp, ast.GeneratorExp)):
                    for g in n.generators:
                        self._unpack_target(g.target, g.iter, out, elementwise=True)
                elif isinstance(n, (ast.Yield, ast.YieldFrom, ast.Await, ast.NamedExpr)):
                    if not isinstance(n, ast.NamedExpr):
                        self.unclassified.append(f'{f.where()}:{n.lineno} {type(n).__name__}')
        return out

    def _add_implicit(self, out: Dict[ExKey, Origin], key: ExKey, node: ast.AST) -> None:
        f = self._f
        if id(node) not in self._counted:
            self._counted.add(id(node))
            self.n_implicit += 1
        if self.discharge is not None and self.discharge(f, node, key):
            if ('d', id(node)) not in self._counted:
                self._counted.add(('d', id(node)))  # type: ignore[arg-type]
                self.n_discharged += 1
            return
        out.setdefault((key, f.where(), getattr(node, 'lineno', 0)), Origin(f.where(), getattr(node, 'lineno', 0), norm(node)[:100]))

    def _type_names(self, e: ast.AST) -> List[str]:
        td = self.ty.type_of(self._f.module.name, e)
        if td is None:
            return []
        if td[0] == 'tuple':
            return ['builtins.tuple']
        return self.ty.inst_names(td)

    def _subscript(self, n: ast.Subscript, out: Dict[ExKey, Origin], store: bool) -> None:
        f = self._f
        if isinstance(n.slice, ast.Slice):
            return
        td = self.ty.type_of(f.module.name, n.value)
        if td is not None and td[0] == 'union' and all(m is not None and m[0] == 'tuple' for m in td[1]):
            okc, iv = self.prog.try_fold(f.module, n.slice)
            if not (okc and isinstance(iv, int) and all(-len(m[1]) <= iv < len(m[1]) for m in td[1])):
                self._add_implicit(out, 'builtins.IndexError', n)
            return
        names = self._type_names(n.value)
        if not names:
            self.unclassified.append(f'{f.where()}:{n.lineno} subscript of a value of unknown type `{norm(n)}`')
            return
        for tn in names:
            if tn in MAP_TYPES:
                if not store:
                    self._add_implicit(out, 'builtins.KeyError', n)
            elif tn == 'builtins.tuple' and td is not None and td[0] == 'tuple':
                okc, iv = self.prog.try_fold(f.module, n.slice)
                if not (okc and isinstance(iv, int) and -len(td[1]) <= iv < len(td[1])):
                    self._add_implicit(out, 'builtins.IndexError', n)
            elif tn in SEQ_TYPES:
                self._add_implicit(out, 'builtins.IndexError', n)
            elif tn.startswith('zeroconf.'):
                ci = self.prog.classes.get(tn)
                g = ci.find_method('__getitem__') if ci else None
                if g is not None and g.full in self.summ:
                    self._merge(out, {k: o.via(f'{f.where()}:{n.lineno}') for k, o in self.summ[g.full].items()})
                else:
                    self.unclassified.append(f'{f.where()}:{n.lineno} subscript of {tn}')
            else:
                self.unclassified.append(f'{f.where()}:{n.lineno} subscript of {tn} `{norm(n)}`')

    def _div(self, divisor: ast.AST, node: ast.AST, out: Dict[ExKey, Origin], left: Optional[ast.AST] = None) -> None:
        if left is not None and isinstance(getattr(node, 'op', None), ast.Mod):
            ln = self._type_names(left)
            if isinstance(left, (ast.Constant, ast.JoinedStr)) and isinstance(getattr(left, 'value', ''), str) or 'builtins.str' in ln:
                # string formatting: total when the format is a literal whose conversions match the operand count; a format
                # string that contains data (an f-string, a concatenation, a variable) can hold a stray `%` and then raises
                # TypeError (not enough / not all arguments) or ValueError (unsupported format character)
                lit = self._literal_format(left)
                if lit is not None:
                    import re as _re

                    specs = _re.findall(r'%(?:\([^)]*\))?[#0\- +]*(?:\*|\d+)?(?:\.(?:\*|\d+))?[hlL]?(.)', lit)
                    n_args = len(divisor.elts) if isinstance(divisor, ast.Tuple) else 1
                    real = [c for c in specs if c != '%']
                    if all(c in 'srdifxXoeEgGca' for c in real) and (len(real) == n_args or '%(' in lit):
                        return
                self._add_implicit(out, 'builtins.TypeError', node)
                self._add_implicit(out, 'builtins.ValueError', node)
                return
        okc, v = self.prog.try_fold(self._f.module, divisor)
        if okc and isinstance(v, (int, float)) and v != 0:
            return
        self._add_implicit(out, 'builtins.ZeroDivisionError', node)

    def _orderable(self, td: Any) -> bool:
        """Values of this type can be compared with `<` among themselves without raising (unknown types: assumed so)."""
        if not td:
            return True
        if td[0] == 'tuple':
            return all(self._orderable(x) for x in td[1])
        if td[0] == 'inst':
            full = td[1]
            if full == 'builtins.tuple':
                return all(self._orderable(x) for x in td[2])
            if full.startswith('zeroconf.'):
                c = self.prog.classes.get(full)
                return bool(c and c.find_method('__lt__'))
            return True
        if td[0] == 'union':
            return all(self._orderable(x) for x in td[1])
        return True

    def _literal_format(self, e: ast.AST) -> Optional[str]:
        """The text of a format string that is a literal (adjacent / concatenated literals and module constants included)."""
        if isinstance(e, ast.Constant) and isinstance(e.value, str):
            return e.value
        if isinstance(e, ast.BinOp) and isinstance(e.op, ast.Add):
            a, b = self._literal_format(e.left), self._literal_format(e.right)
            return a + b if a is not None and b is not None else None
        if isinstance(e, (ast.Name, ast.Attribute)):
            okc, v = self.prog.try_fold(self._f.module, e)
            return v if okc and isinstance(v, str) else None
        return None

    def _unpack_target(self, target: ast.AST, source: ast.AST, out: Dict[ExKey, Origin], elementwise: bool) -> None:
        if not isinstance(target, (ast.Tuple, ast.List)):
            return
        f = self._f
        td = self.ty.type_of(f.module.name, source)
        want = len(target.elts)
        ok = False
        if not elementwise and td is not None and td[0] == 'tuple' and len(td[1]) == want:
            ok = True
        if elementwise and td is not None and td[0] == 'inst' and td[2]:
            el = td[2][-1] if td[1] in ('builtins.enumerate',) else td[2][0]
            if td[1] == 'builtins.enumerate':
                ok = want == 2
            elif td[1] in ('builtins.dict_items', 'typing.ItemsView', 'builtins.zip'):
                ok = want == 2
            elif el is not None and el[0] == 'tuple' and len(el[1]) == want:
                ok = True
        if not ok:
            self._add_implicit(out, 'builtins.ValueError', target)

    def _call(self, n: ast.Call, out: Dict[ExKey, Origin]) -> None:
        f = self._f
        if id(n) in self._detached:
            return
        s = self._sites.get(id(n))
        if s is None:
            if self._hard:
                self.unclassified.append(f'{f.where()}:{n.lineno} call `{norm(n.func)}` not in the call graph')
            return
        if s.boundary and not s.targets:
            return  # user callback (assumption A5)
        for t in s.targets:
            if t.full not in self.summ:
                continue  # outside the scope closure cannot happen; defensive
            if t.is_async and not self._awaited(n):
                continue
            callee = self.summ[t.full]
            if (f.full, t.full) in self._cyclic and self._hard:
                guarded = self.recursion_guard(f, n) if self.recursion_guard else False
                if not guarded:
                    self._add_implicit(out, 'builtins.RecursionError', n)
            for k, o in callee.items():
                if k not in out:
                    out[k] = o.via(f'{f.where()}:{n.lineno} -> {t.qual}')
        for en in s.ext:
            if en in ORDERING_EXT:
                self._ordering_call(en, n, out)
            for k in ALWAYS_RAISING_EXT.get(en, ()):
                self._add_implicit(out, k, n)
        if not self._hard:
            return
        for en in s.ext:
            self._ext_call(en, n, out)
        if s.unresolved:
            self.unclassified.append(f'{f.where()}:{n.lineno} unresolved call `{norm(n.func)}`')

    def _awaited(self, n: ast.Call) -> bool:
        for x in walk_local_ordered(self._f.node):
            if isinstance(x, ast.Await) and x.value is n:
                return True
        return False

    def _ordering_call(self, en: str, n: ast.Call, out: Dict[ExKey, Origin]) -> None:
        f = self._f
        if any(kw.arg == 'key' for kw in n.keywords):
            return
        if True:
            # ordering without a key compares the elements themselves: total for numbers / text / tuples of those; a tuple that
            # carries an object without an ordering raises TypeError as soon as two tuples tie on what precedes it
            elems: List[Any] = []
            if en == 'builtins.list.sort' and isinstance(n.func, ast.Attribute):
                td = self.ty.type_of(f.module.name, n.func.value)
                elems = list(td[2][:1]) if td and td[0] == 'inst' and len(td) > 2 else []
            elif len(n.args) == 1:
                td = self.ty.type_of(f.module.name, n.args[0])
                elems = list(td[2][:1]) if td and td[0] == 'inst' and len(td) > 2 and td[2] else []
            else:
                elems = [self.ty.type_of(f.module.name, a) for a in n.args]
            bad = [e_ for e_ in elems if e_ is not None and not self._orderable(e_)]
            if bad:
                self._add_implicit(out, 'builtins.TypeError', n)

    def _ext_call(self, en: str, n: ast.Call, out: Dict[ExKey, Origin]) -> None:
        f = self._f
        if en.startswith('logging.') or en.startswith('functools.partial:log.'):
            return  # A3
        if en in ('builtins.str', 'builtins.str.__init__') and (len(n.args) >= 2 or any(kw.arg in ('encoding', 'errors') for kw in n.keywords)):
            # str(b, 'utf-8'[, errors]) decodes: same failure mode as bytes.decode
            mode = n.args[2].value if len(n.args) >= 3 and isinstance(n.args[2], ast.Constant) else None
            for kw in n.keywords:
                if kw.arg == 'errors' and isinstance(kw.value, ast.Constant):
                    mode = kw.value.value
            if mode in ('surrogateescape', 'surrogatepass'):
                # does not raise here, but hands out strings with lone surrogates: assumption A4 (text is well-formed, encoding
                # it cannot raise) no longer holds for anything decoded this way -- the failure is charged to this call
                self._add_implicit(out, 'builtins.UnicodeEncodeError', n)
            elif mode not in ('replace', 'ignore', 'backslashreplace'):
                self._add_implicit(out, 'builtins.UnicodeDecodeError', n)
            return
        if en in ORDERING_EXT or en in ALWAYS_RAISING_EXT:
            return  # charged in _call, inside and outside the hardened region
        if en == 'builtins.str.encode' and self.strict_text:
            mode = n.args[1].value if len(n.args) >= 2 and isinstance(n.args[1], ast.Constant) else None
            for kw in n.keywords:
                if kw.arg == 'errors' and isinstance(kw.value, ast.Constant):
                    mode = kw.value.value
            if mode in (None, 'strict'):
                self._add_implicit(out, 'builtins.UnicodeEncodeError', n)
            return
        if en in SAFE_EXT:
            return
        if en.endswith('.__init__'):
            rc = self.h.real(en[: -len('.__init__')])
            if isinstance(rc, type) and issubclass(rc, BaseException):
                return  # constructing an exception object
        if en.startswith('zeroconf.'):
            # class without own __init__, or attribute call with no body in the model
            cfull = en.rsplit('.', 1)[0]
            if cfull in self.prog.classes or en in self.prog.classes:
                return
        if en in ('builtins.bytes.decode', 'builtins.bytearray.decode'):
            mode = None
            if len(n.args) >= 2 and isinstance(n.args[1], ast.Constant):
                mode = n.args[1].value
            for kw in n.keywords:
                if kw.arg == 'errors' and isinstance(kw.value, ast.Constant):
                    mode = kw.value.value
            if mode in ('surrogateescape', 'surrogatepass'):
                # does not raise here, but hands out strings with lone surrogates: assumption A4 (text is well-formed, encoding
                # it cannot raise) no longer holds for anything decoded this way -- the failure is charged to this call
                self._add_implicit(out, 'builtins.UnicodeEncodeError', n)
            elif mode not in ('replace', 'ignore', 'backslashreplace'):
                self._add_implicit(out, 'builtins.UnicodeDecodeError', n)
            return
        if en in ('builtins.dict.pop',):
            if len(n.args) < 2:
                self._add_implicit(out, 'builtins.KeyError', n)
            return
        if en in RAISING_EXT:
            for k in RAISING_EXT[en]:
                self._add_implicit(out, k, n)
            return
        if en.startswith('struct.') or en.startswith('_struct.'):
            self._add_implicit(out, 'struct.error', n)
            return
        self.unclassified.append(f'{f.where()}:{n.lineno} external call `{en}`')

    def stats(self) -> Dict[str, Any]:
        return {
            'functions_in_scope': len(self.scope),
            'hardened_functions': sum(1 for f in self.scope if self.hardened(f)),
            'explicit_raise_sites': self.n_explicit,
            'runtime_assert_sites': self.n_asserts,
            'implicit_sources': self.n_implicit,
            'implicit_discharged': self.n_discharged,
            'fixpoint_rounds': getattr(self, 'rounds', 0),
        }

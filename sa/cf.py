"""CF -- per-function control-flow graph over the statement kinds the repository
uses, with dominators, must-pass-through queries and bounded path enumeration."""
from __future__ import annotations

import ast
from typing import Any, Callable, Dict, Iterator, List, Optional, Sequence, Set, Tuple

from . import AnalysisError
from .pm import norm, walk_local_ordered

Edge = Tuple['Node', Any]


class Node:
    __slots__ = ('id', 'kind', 'ast', 'succ', 'pred', 'in_loop', 'copy_of')

    def __init__(self, nid: int, kind: str, node: Optional[ast.AST]) -> None:
        self.id = nid
        self.kind = kind
        self.ast = node
        self.succ: List[Tuple['Node', Any]] = []
        self.pred: List[Tuple['Node', Any]] = []
        self.in_loop: List[ast.AST] = []
        self.copy_of: Optional[int] = None

    @property
    def line(self) -> int:
        return getattr(self.ast, 'lineno', 0) if self.ast is not None else 0

    def exprs(self) -> List[ast.AST]:
        """The expressions / statement evaluated *at* this node (compound
        statements contribute only their header)."""
        a = self.ast
        if a is None:
            return []
        if self.kind in ('test', 'loop_test'):
            return [a]
        if self.kind == 'for':
            return [a.iter, a.target]  # type: ignore[attr-defined]
        if self.kind == 'with':
            out: List[ast.AST] = []
            for it in a.items:  # type: ignore[attr-defined]
                out.append(it.context_expr)
                if it.optional_vars is not None:
                    out.append(it.optional_vars)
            return out
        if self.kind == 'except':
            return [a.type] if getattr(a, 'type', None) is not None else []
        if self.kind in ('stmt', 'return', 'raise', 'break', 'continue'):
            return [a]
        return []

    def calls(self) -> List[ast.Call]:
        out: List[ast.Call] = []
        for e in self.exprs():
            for n in walk_local_ordered(e):
                if isinstance(n, ast.Call):
                    out.append(n)
        return out

    def text(self) -> str:
        if self.ast is None:
            return f'<{self.kind}>'
        if self.kind in ('test', 'loop_test'):
            return f'if {norm(self.ast)}' if self.kind == 'test' else f'while {norm(self.ast)}'
        if self.kind == 'for':
            return f'for {norm(self.ast.target)} in {norm(self.ast.iter)}'  # type: ignore[attr-defined]
        if self.kind == 'with':
            return 'with ' + ', '.join(norm(i.context_expr) for i in self.ast.items)  # type: ignore[attr-defined]
        if self.kind == 'except':
            return 'except ' + (norm(self.ast.type) if getattr(self.ast, 'type', None) is not None else '')
        t = norm(self.ast)
        return t if len(t) < 120 else t[:117] + '...'

    def __repr__(self) -> str:
        return f'<{self.id}:{self.kind}@{self.line} {self.text()[:50]}>'


class CFG:
    def __init__(self, fn: ast.AST) -> None:
        if not isinstance(fn, (ast.FunctionDef, ast.AsyncFunctionDef)):
            raise AnalysisError('CFG needs a function definition')
        self.fn = fn
        self.nodes: List[Node] = []
        self.entry = self._new('entry', None)
        self.exit = self._new('exit', None)
        self.raise_exit = self._new('raise_exit', None)
        self._loops: List[Dict[str, Any]] = []
        self._trys: List[Dict[str, Any]] = []
        self._loop_asts: List[ast.AST] = []
        fr = self._seq(fn.body, [(self.entry, None)])
        self._connect(fr, self.exit)
        self._dom: Optional[Dict[int, Set[int]]] = None

    # ---------------------------------------------------------------- build
    def _new(self, kind: str, node: Optional[ast.AST]) -> Node:
        n = Node(len(self.nodes), kind, node)
        n.in_loop = list(getattr(self, '_loop_asts', []))
        self.nodes.append(n)
        for t in getattr(self, '_trys', []):
            t['nodes'].append(n)
        return n

    def _connect(self, frontier: Sequence[Edge], to: Node) -> None:
        for n, lab in frontier:
            n.succ.append((to, lab))
            to.pred.append((n, lab))

    def _seq(self, stmts: Sequence[ast.stmt], frontier: List[Edge]) -> List[Edge]:
        for s in stmts:
            if not frontier:
                break  # unreachable code after return/raise/continue
            frontier = self._stmt(s, frontier)
        return frontier

    def _run_finallies(self, frontier: List[Edge], upto: int = 0) -> List[Edge]:
        """Inline copies of the enclosing finally bodies (innermost first)."""
        for t in reversed(self._trys[upto:]):
            if t.get('finalbody') and not t.get('in_final'):
                saved = self._trys
                self._trys = self._trys[: self._trys.index(t)]
                frontier = self._seq(t['finalbody'], frontier)
                self._trys = saved
        return frontier

    def _stmt(self, s: ast.stmt, frontier: List[Edge]) -> List[Edge]:
        if isinstance(s, ast.If):
            t = self._new('test', s.test)
            self._connect(frontier, t)
            a = self._seq(s.body, [(t, True)])
            b = self._seq(s.orelse, [(t, False)])
            return a + b
        if isinstance(s, ast.While):
            t = self._new('loop_test', s.test)
            self._connect(frontier, t)
            ctx = {'head': t, 'breaks': [], 'ntry': len(self._trys)}
            self._loops.append(ctx)
            self._loop_asts.append(s)
            body = self._seq(s.body, [(t, True)])
            self._loop_asts.pop()
            for n, lab in body:
                n.succ.append((t, ('back', lab)))
                t.pred.append((n, ('back', lab)))
            self._loops.pop()
            always = isinstance(s.test, ast.Constant) and bool(s.test.value) is True
            out = [] if always else self._seq(s.orelse, [(t, False)])
            return out + ctx['breaks']
        if isinstance(s, (ast.For, ast.AsyncFor)):
            h = self._new('for', s)
            self._connect(frontier, h)
            ctx = {'head': h, 'breaks': [], 'ntry': len(self._trys)}
            self._loops.append(ctx)
            self._loop_asts.append(s)
            body = self._seq(s.body, [(h, 'iter')])
            self._loop_asts.pop()
            for n, lab in body:
                n.succ.append((h, ('back', lab)))
                h.pred.append((n, ('back', lab)))
            self._loops.pop()
            out = self._seq(s.orelse, [(h, 'done')])
            return out + ctx['breaks']
        if isinstance(s, ast.Return):
            n = self._new('return', s)
            self._connect(frontier, n)
            fr = self._run_finallies([(n, None)])
            self._connect(fr, self.exit)
            return []
        if isinstance(s, ast.Raise):
            n = self._new('raise', s)
            self._connect(frontier, n)
            self._raise_from(n)
            return []
        if isinstance(s, ast.Break):
            n = self._new('break', s)
            self._connect(frontier, n)
            ctx = self._loops[-1]
            fr = self._run_finallies([(n, None)], ctx['ntry'])
            ctx['breaks'].extend(fr)
            return []
        if isinstance(s, ast.Continue):
            n = self._new('continue', s)
            self._connect(frontier, n)
            ctx = self._loops[-1]
            fr = self._run_finallies([(n, None)], ctx['ntry'])
            for x, lab in fr:
                x.succ.append((ctx['head'], ('back', lab)))
                ctx['head'].pred.append((x, ('back', lab)))
            return []
        if isinstance(s, ast.Try):
            return self._try(s, frontier)
        if isinstance(s, (ast.With, ast.AsyncWith)):
            w = self._new('with', s)
            self._connect(frontier, w)
            suppress = [
                it.context_expr
                for it in s.items
                if isinstance(it.context_expr, ast.Call) and norm(it.context_expr.func).endswith('suppress')
            ]
            if suppress:
                t = {'nodes': [], 'handlers': [], 'finalbody': None}
                self._trys.append(t)
                body = self._seq(s.body, [(w, None)])
                self._trys.pop()
                j = self._new('suppress', s)
                for bn in t['nodes']:
                    bn.succ.append((j, 'exc'))
                    j.pred.append((bn, 'exc'))
                return body + [(j, None)]
            return self._seq(s.body, [(w, None)])
        # simple statements (incl. nested defs, which are opaque here)
        n = self._new('stmt', s)
        self._connect(frontier, n)
        return [(n, None)]

    def _raise_from(self, n: Node) -> None:
        """Route an explicit raise to the innermost handlers, else out."""
        for t in reversed(self._trys):
            if t.get('in_handlers') or t.get('in_final'):
                continue
            if t['handlers']:
                for h in t['handlers']:
                    n.succ.append((h, 'exc'))
                    h.pred.append((n, 'exc'))
                # a handler may not match: also continue outward
            if t.get('exc_final') is not None:
                n.succ.append((t['exc_final'], 'exc'))
                t['exc_final'].pred.append((n, 'exc'))
                return
        n.succ.append((self.raise_exit, 'exc'))
        self.raise_exit.pred.append((n, 'exc'))

    def _try(self, s: ast.Try, frontier: List[Edge]) -> List[Edge]:
        t: Dict[str, Any] = {'nodes': [], 'handlers': [], 'finalbody': s.finalbody or None, 'exc_final': None}
        handler_nodes = [self._new('except', h) for h in s.handlers]
        t['handlers'] = handler_nodes
        if s.finalbody:
            t['exc_final'] = self._new('finally_exc', s)
        # body
        self._trys.append(t)
        t['nodes'] = []
        body = self._seq(s.body, frontier)
        body_nodes = list(t['nodes'])
        t['in_handlers'] = True
        # implicit exceptions: any node of the body may transfer to any handler / exceptional finally
        for bn in body_nodes:
            if bn.kind in ('raise',):
                continue
            for h in handler_nodes:
                bn.succ.append((h, 'exc'))
                h.pred.append((bn, 'exc'))
            if t['exc_final'] is not None and not handler_nodes:
                bn.succ.append((t['exc_final'], 'exc'))
                t['exc_final'].pred.append((bn, 'exc'))
        orelse = self._seq(s.orelse, body) if s.orelse else body
        outs: List[Edge] = list(orelse)
        for h, hn in zip(s.handlers, handler_nodes):
            outs.extend(self._seq(h.body, [(hn, None)]))
        self._trys.pop()
        if s.finalbody:
            t['in_final'] = True
            outs = self._seq(s.finalbody, outs)
            # exceptional copy: finally then propagate
            fr = self._seq(s.finalbody, [(t['exc_final'], None)])
            for n, lab in fr:
                self._raise_from_plain(n, lab)
        return outs

    def _raise_from_plain(self, n: Node, lab: Any) -> None:
        tgt = None
        for t in reversed(self._trys):
            if t.get('in_handlers') or t.get('in_final'):
                continue
            if t['handlers']:
                for h in t['handlers']:
                    n.succ.append((h, 'exc'))
                    h.pred.append((n, 'exc'))
            if t.get('exc_final') is not None:
                tgt = t['exc_final']
                break
        tgt = tgt or self.raise_exit
        n.succ.append((tgt, 'exc'))
        tgt.pred.append((n, 'exc'))

    # -------------------------------------------------------------- queries
    def find(self, pred: Callable[[Node], bool]) -> List[Node]:
        return [n for n in self.nodes if pred(n)]

    def nodes_calling(self, name: str) -> List[Node]:
        out = []
        for n in self.nodes:
            for c in n.calls():
                f = c.func
                nm = f.attr if isinstance(f, ast.Attribute) else (f.id if isinstance(f, ast.Name) else '')
                if nm == name:
                    out.append(n)
                    break
        return out

    def _reachable(self) -> List[Node]:
        seen: Set[int] = set()
        todo = [self.entry]
        out = []
        while todo:
            n = todo.pop()
            if n.id in seen:
                continue
            seen.add(n.id)
            out.append(n)
            todo.extend(s for s, _ in n.succ)
        return out

    def dominators(self) -> Dict[int, Set[int]]:
        if self._dom is not None:
            return self._dom
        reach = self._reachable()
        ids = {n.id for n in reach}
        dom: Dict[int, Set[int]] = {n.id: set(ids) for n in reach}
        dom[self.entry.id] = {self.entry.id}
        changed = True
        while changed:
            changed = False
            for n in reach:
                if n is self.entry:
                    continue
                preds = [p for p, _ in n.pred if p.id in ids]
                new = set(ids)
                for p in preds:
                    new &= dom[p.id]
                new.add(n.id)
                if new != dom[n.id]:
                    dom[n.id] = new
                    changed = True
        self._dom = dom
        return dom

    def dominates(self, a: Node, b: Node) -> bool:
        d = self.dominators()
        return b.id in d and a.id in d[b.id]

    def dominated_by_any(self, b: Node, cands: Sequence[Node]) -> bool:
        return any(self.dominates(a, b) for a in cands)

    def path_avoiding(
        self,
        start: Node,
        goal: Callable[[Node], bool],
        avoid: Callable[[Node], bool],
        follow_exc: bool = False,
        skip_start: bool = True,
    ) -> Optional[List[Node]]:
        """A path from `start` to a node satisfying `goal` that passes no node
        satisfying `avoid` (None if every such path is blocked)."""
        prev: Dict[int, Optional[Node]] = {start.id: None}
        todo = [start]
        while todo:
            n = todo.pop(0)
            if not (n is start and skip_start):
                if goal(n):
                    out = []
                    cur: Optional[Node] = n
                    while cur is not None:
                        out.append(cur)
                        cur = prev[cur.id]
                    return list(reversed(out))
            for s, lab in n.succ:
                if lab == 'exc' and not follow_exc:
                    continue
                if s.id in prev:
                    continue
                if avoid(s) and not goal(s):
                    continue
                prev[s.id] = n
                todo.append(s)
        return None

    def must_pass_before_exit(self, start: Node, through: Callable[[Node], bool]) -> Optional[List[Node]]:
        """None if every normal path start->exit passes a `through` node; else a witness."""
        return self.path_avoiding(start, lambda n: n is self.exit, through)

    def only_through_edge(self, t: Node, label: Any, n: Node) -> bool:
        """Every path from the entry to `n` leaves test node `t` through its `label` edge last: `t` dominates `n` and `n` cannot
        be reached from the other successors of `t` without coming back to `t`."""
        if not self.dominates(t, n) or n is t:
            return False
        for s2, lab in t.succ:
            if lab == label or lab == 'exc':
                continue
            if s2 is n or self.path_avoiding(s2, lambda x: x is n, lambda x: x is t, skip_start=False) is not None:
                return False
        return True

    def can_reach(self, a: Node, b: Node, follow_exc: bool = False) -> bool:
        return self.path_avoiding(a, lambda n: n is b, lambda n: False, follow_exc) is not None

    # ------------------------------------------------------ path enumeration
    def paths(
        self,
        start: Optional[Node] = None,
        stop: Optional[Callable[[Node], bool]] = None,
        loop_bound: int = 1,
        follow_exc: bool = False,
        limit: int = 200000,
    ) -> Iterator[List[Tuple[Node, Any]]]:
        """All paths (each back edge taken at most `loop_bound` times) from
        `start` to an exit (or a `stop` node).  A path is a list of
        (node, label-of-edge-taken-out-of-it)."""
        start = start or self.entry
        count = 0
        stack: List[Tuple[Node, List[Tuple[Node, Any]], Dict[Tuple[int, int], int]]] = [(start, [], {})]
        while stack:
            n, path, used = stack.pop()
            if n in (self.exit, self.raise_exit) or (stop is not None and stop(n) and path):
                count += 1
                if count > limit:
                    raise AnalysisError(f'path explosion in {self.fn.name} (> {limit})')  # type: ignore[attr-defined]
                yield path + [(n, None)]
                continue
            succ = [(s, lab) for s, lab in n.succ if follow_exc or lab != 'exc']
            if not succ:
                continue
            for s, lab in reversed(succ):
                u = used
                is_back = isinstance(lab, tuple) and lab and lab[0] == 'back'
                elabel = lab[1] if is_back else lab
                enters_body = (n.kind == 'for' and elabel == 'iter') or (n.kind == 'loop_test' and elabel is True)
                if enters_body:
                    k = (n.id, 0)
                    if used.get(k, 0) >= loop_bound:
                        continue
                    u = dict(used)
                    u[k] = used.get(k, 0) + 1
                stack.append((s, path + [(n, elabel)], u))


def cfg_of(fn: ast.AST) -> CFG:
    c = getattr(fn, '_verif_cfg', None)
    if c is None:
        c = CFG(fn)
        fn._verif_cfg = c  # type: ignore[attr-defined]
    return c

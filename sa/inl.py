"""Helper inlining (a normal form, applied to every module before the spelling-only canonical pass).

A private helper -- a function or method whose name starts with one underscore -- that NO rule knows by name is transparent:
its body is what its callers do.  Extracting such a helper from a routine (or folding one back in) is the most common
behaviour-preserving refactoring, and rules that read a routine's statements would otherwise lose sight of the extracted
part.  So a call of an unknown private helper from the same class (`self._h(...)`) or the same module (`_h(...)`) is replaced
by the helper's body, parameters substituted and locals renamed, when the shape allows it:

  * statement form   `self._h(a, b)` / `await self._h(a, b)` as a statement: the body replaces the statement; a body whose only
                     returns are bare guards at its top level (`if c: return`) is nested accordingly;
  * value form       `x = self._h(a)` / `return self._h(a)` / `if self._h(a):` ... where the body folds into ONE expression
                     (local assignments substituted, `if c: return A` ... `return B` read as a conditional): the call is
                     replaced by that expression;
  * expression form  a call anywhere inside an expression, where the (synchronous) helper's body folds into ONE expression;
  * tail form        `return self._h(a)`: the helper's returns are the caller's returns, its whole body replaces the statement;
  * block-value form `x = self._h(a)` / `return self._h(a)` where the body is statements followed by a single final
                     `return <expr>`: the statements are placed before the calling statement and the call becomes <expr>.

Helpers that rules DO mention by name (they are anchors), dunder methods, decorated, nested, generator, variadic, defaulted-
and-not-fully-supplied, recursive or long helpers are left alone.  The helper's own definition stays in the tree.
"""
from __future__ import annotations

import ast
import copy
import os
import re
from typing import Dict, List, Optional, Set, Tuple

_KNOWN: Optional[Set[str]] = None
# private helpers of the tree the rules were written against (frozen; confirmed by reading): several rules find such a helper
# through the call that reaches it rather than by name, so they stay what they are.  A helper that is NOT in this list -- one
# that a later change extracted -- is transparent.
BASELINE_HELPERS = {
    '_add', '_add_address_answers', '_add_answers_additionals', '_add_broadcast_answer', '_add_pointer_answers',
    '_add_question_with_known_answers', '_add_service_type_enumeration_query_answers', '_answer_question', '_async_add',
    '_async_broadcast_service', '_async_cache_cleanup', '_async_cancel', '_async_close', '_async_create_endpoints', '_async_get_all_tasks',
    '_async_get_by_index', '_async_remove', '_async_remove_queued_answers', '_async_schedule_next_cache_cleanup', '_async_setup',
    '_async_shutdown', '_async_start', '_async_start_query_sender', '_async_update_matching_records', '_cached_ip_addresses',
    '_cancel_any_timers_for_addr', '_check_data_limit_or_rollback', '_close', '_decode_labels_at_offset', '_dns_addresses',
    '_dns_entry_matches', '_dns_nsec', '_dns_pointer', '_dns_service', '_dns_text', '_encode_address', '_enqueue_callback', '_eq',
    '_fire_service_state_changed_event', '_generate_decoded_properties', '_generate_request_query', '_get_address_and_nsec_records',
    '_get_address_records_from_cache_by_type', '_get_answer_strategies', '_get_initial_delay', '_get_ip_addresses_from_cache_lifo',
    '_get_lookup', '_get_random_delay', '_get_short', '_group_ptr_queries_with_known_answers', '_has_mcast_record_in_last_second',
    '_has_mcast_within_one_quarter_ttl', '_has_more_to_add', '_initial_parse', '_insert_short_at_start', '_ip_addresses_by_version_value',
    '_is_complete', '_is_v6_address', '_load_from_cache', '_log_exception_debug', '_names_matching_types', '_on_change_dispatcher',
    '_process_datagram_at_time', '_process_ready_types', '_process_record_threadsafe', '_process_startup_queries', '_read_bitmap',
    '_read_character_string', '_read_header', '_read_name', '_read_others', '_read_questions', '_read_record', '_read_string', '_remove',
    '_remove_answers_from_queue', '_remove_from_index', '_remove_key', '_replace_short', '_reset_for_next_packet',
    '_resolve_all_futures_to_none', '_respond_query', '_run_loop', '_schedule_ptr_query', '_schedule_ptr_refresh',
    '_service_state_changed_from_listener', '_set_class', '_set_future_none_if_not_done', '_set_ipv4_addresses_from_cache',
    '_set_ipv6_addresses_from_cache', '_set_properties', '_set_text', '_shutdown_threads', '_start_thread', '_suppressed_by_answer',
    '_unpack_text_into_properties', '_wait_for_loop_tasks', '_write_answers_from_offset', '_write_byte', '_write_int',
    '_write_link_to_name', '_write_question', '_write_questions_from_offset', '_write_record', '_write_record_class',
    '_write_records_from_offset', '_write_ttl', '_write_utf',
}
MAX_STMTS = 40


def known_names() -> Set[str]:
    """Every identifier-like token that occurs in the rule sources and engines: helpers with such a name are anchors."""
    global _KNOWN
    if _KNOWN is None:
        here = os.path.dirname(os.path.abspath(__file__))
        toks: Set[str] = set()
        for d in (here, os.path.join(os.path.dirname(here), 'rules')):
            for fn in sorted(os.listdir(d)):
                if fn.endswith('.py') and fn != 'inl.py':
                    with open(os.path.join(d, fn), encoding='utf-8') as fh:
                        toks.update(re.findall(r'\b_[A-Za-z][A-Za-z0-9_]*\b', fh.read()))
        _KNOWN = toks | BASELINE_HELPERS
    return _KNOWN


class _Subst(ast.NodeTransformer):
    def __init__(self, mapping: Dict[str, ast.expr], rename: Dict[str, str], keep_positions: bool = False) -> None:
        self.m = mapping
        self.r = rename
        self.keep = keep_positions

    def visit_Name(self, n: ast.Name) -> ast.AST:
        if n.id in self.m and isinstance(n.ctx, ast.Load):
            # the substituted expression sits where the parameter was read: it keeps that position (the type oracle is asked
            # by position, and there it knows the parameter's declared type)
            new = copy.deepcopy(self.m[n.id])
            if self.keep:
                # a helper local folded into its use: the value keeps its own positions (and the types known there)
                return new
            # ... as a whole; its parts keep the positions they have at the call site (and the types known there)
            if not isinstance(new, ast.Call):
                ast.copy_location(new, n)
            return new
        if n.id in self.r:
            return ast.copy_location(ast.Name(id=self.r[n.id], ctx=n.ctx), n)
        return n


def _locals_of(body: List[ast.stmt]) -> Set[str]:
    out: Set[str] = set()
    for st in body:
        for x in ast.walk(st):
            if isinstance(x, ast.Name) and isinstance(x.ctx, (ast.Store, ast.Del)):
                out.add(x.id)
            if isinstance(x, ast.ExceptHandler) and x.name:
                out.add(x.name)
    return out


def _strip_doc(body: List[ast.stmt]) -> List[ast.stmt]:
    if body and isinstance(body[0], ast.Expr) and isinstance(body[0].value, ast.Constant) and isinstance(body[0].value.value, str):
        return body[1:]
    return body


def _eligible(fn: ast.AST) -> bool:
    if not isinstance(fn, (ast.FunctionDef, ast.AsyncFunctionDef)):
        return False
    if fn.decorator_list or fn.args.vararg or fn.args.kwarg or fn.args.kwonlyargs or fn.args.posonlyargs:
        return False
    n = sum(1 for _ in ast.walk(fn) if isinstance(_, ast.stmt))
    if n > MAX_STMTS:
        return False
    for x in ast.walk(fn):
        if x is not fn and isinstance(x, (ast.FunctionDef, ast.AsyncFunctionDef, ast.Lambda, ast.ClassDef, ast.Yield, ast.YieldFrom, ast.Global, ast.Nonlocal)):
            return False
        if isinstance(x, ast.Call) and ((isinstance(x.func, ast.Attribute) and x.func.attr == fn.name) or (isinstance(x.func, ast.Name) and x.func.id == fn.name)):
            return False  # recursive
    return True


def _bind(fn: ast.AST, call: ast.Call, is_method: bool) -> Optional[Dict[str, ast.expr]]:
    params = [a.arg for a in fn.args.args]  # type: ignore[attr-defined]
    if is_method:
        params = params[1:]
    if any(isinstance(a, ast.Starred) for a in call.args) or any(k.arg is None for k in call.keywords):
        return None
    m: Dict[str, ast.expr] = {}
    if len(call.args) > len(params):
        return None
    for p, a in zip(params, call.args):
        m[p] = a
    for k in call.keywords:
        if k.arg not in params or k.arg in m:
            return None
        m[k.arg] = k.value  # type: ignore[index]
    defaults = fn.args.defaults  # type: ignore[attr-defined]
    dparams = params[len(params) - len(defaults):] if defaults else []
    for p, d in zip(dparams, defaults):
        m.setdefault(p, d)
    if set(m) != set(params):
        return None
    # an argument that is not a plain value would be evaluated once per use: keep to names / attributes / constants / small pure forms
    for a in m.values():
        for x in ast.walk(a):
            if isinstance(x, (ast.Call, ast.Await, ast.NamedExpr, ast.Yield, ast.YieldFrom)):
                # a call as argument is tolerated only when the parameter is used at most once (checked by the caller of _bind)
                pass
    return m


def _uses(body: List[ast.stmt], name: str) -> int:
    return sum(1 for st in body for x in ast.walk(st) if isinstance(x, ast.Name) and x.id == name and isinstance(x.ctx, ast.Load))


def _args_ok(fn: ast.AST, mapping: Dict[str, ast.expr], body: List[ast.stmt]) -> bool:
    for p, a in mapping.items():
        complex_ = any(isinstance(x, (ast.Call, ast.Await, ast.NamedExpr)) for x in ast.walk(a))
        if complex_ and _uses(body, p) > 1:
            return False
        # a parameter that the helper rebinds cannot be substituted
        if any(isinstance(x, ast.Name) and x.id == p and isinstance(x.ctx, (ast.Store, ast.Del)) for st in body for x in ast.walk(st)):
            return False
    return True


def _fold_expr(body: List[ast.stmt]) -> Optional[ast.expr]:
    """The body as one expression: processed backwards -- `return X` starts it, `if c: return A` wraps it in a conditional,
    `v = e` (a plain local, assigned once) is substituted into what follows.  None when the body has any other statement."""
    body = _strip_doc(body)
    if not body or not isinstance(body[-1], ast.Return) or body[-1].value is None:
        return None
    e: ast.expr = copy.deepcopy(body[-1].value)
    assigned: Dict[str, int] = {}
    for st in body:
        if isinstance(st, ast.Assign) and len(st.targets) == 1 and isinstance(st.targets[0], ast.Name):
            assigned[st.targets[0].id] = assigned.get(st.targets[0].id, 0) + 1
    for st in reversed(body[:-1]):
        if isinstance(st, ast.If) and not st.orelse and len(st.body) == 1 and isinstance(st.body[0], ast.Return) and st.body[0].value is not None:
            a = copy.deepcopy(st.body[0].value)
            c = copy.deepcopy(st.test)
            boolish = isinstance(c, (ast.Compare,)) or (isinstance(c, ast.UnaryOp) and isinstance(c.op, ast.Not))
            if isinstance(a, ast.Constant) and a.value is True and isinstance(e, ast.Constant) and e.value is False:
                e = c if boolish else ast.Call(func=ast.Name(id='bool', ctx=ast.Load()), args=[c], keywords=[])
            elif isinstance(a, ast.Constant) and a.value is False and isinstance(e, ast.Constant) and e.value is True:
                e = ast.UnaryOp(op=ast.Not(), operand=c)
            elif isinstance(a, ast.Constant) and a.value is False:
                e = ast.BoolOp(op=ast.And(), values=[ast.UnaryOp(op=ast.Not(), operand=c), e])
            elif isinstance(a, ast.Constant) and a.value is True:
                e = ast.BoolOp(op=ast.Or(), values=[c, e])
            else:
                e = ast.IfExp(test=c, body=a, orelse=e)
        elif isinstance(st, ast.Assign) and len(st.targets) == 1 and isinstance(st.targets[0], ast.Name) and assigned.get(st.targets[0].id) == 1:
            e = _Subst({st.targets[0].id: st.value}, {}, keep_positions=True).visit(e)
        elif isinstance(st, ast.AnnAssign) and isinstance(st.target, ast.Name) and st.value is not None:
            e = _Subst({st.target.id: st.value}, {}, keep_positions=True).visit(e)
        elif isinstance(st, ast.Expr) and isinstance(st.value, ast.Constant):
            continue
        elif isinstance(st, ast.Assert):
            continue
        else:
            return None
    return e


def _guard_nest(body: List[ast.stmt]) -> Optional[List[ast.stmt]]:
    """A body without value returns whose bare returns are top-level guards (`if c: return` / trailing `return`): the same
    statements with each guard turned into `if not c:` around what follows.  None when a bare return sits anywhere else."""
    body = _strip_doc(body)
    out: List[ast.stmt] = []
    for i, st in enumerate(body):
        if isinstance(st, ast.Return):
            if st.value is not None:
                return None
            return out  # trailing / unconditional bare return: what follows is dead
        if isinstance(st, ast.If) and not st.orelse and st.body and isinstance(st.body[-1], ast.Return) and st.body[-1].value is None and not any(isinstance(x, ast.Return) for b in st.body[:-1] for x in ast.walk(b)):
            rest = _guard_nest(body[i + 1:])
            if rest is None:
                return None
            pre = copy.deepcopy(st.body[:-1])
            neg = ast.UnaryOp(op=ast.Not(), operand=copy.deepcopy(st.test))
            if pre:
                out.append(ast.If(test=copy.deepcopy(st.test), body=pre, orelse=rest or [ast.Pass()]))
            elif rest:
                out.append(ast.If(test=neg, body=rest, orelse=[]))
            return out
        if any(isinstance(x, ast.Return) for x in ast.walk(st)):
            return None
        out.append(copy.deepcopy(st))
    return out


class _Inliner:
    def __init__(self, known: Set[str]) -> None:
        self.known = known
        self.count = 0
        self.names: List[str] = []

    def helpers_of(self, body: List[ast.stmt]) -> Dict[str, ast.AST]:
        return {st.name: st for st in body if isinstance(st, (ast.FunctionDef, ast.AsyncFunctionDef)) and st.name.startswith('_') and not st.name.startswith('__') and st.name not in self.known and _eligible(st)}

    def _call_of(self, e: Optional[ast.AST], helpers: Dict[str, ast.AST], me: Optional[str]) -> Tuple[Optional[ast.Call], bool]:
        """(the call, awaited?) when `e` is a call of a helper of the scope (or an await of one)."""
        awaited = False
        if isinstance(e, ast.Await):
            e, awaited = e.value, True
        if not isinstance(e, ast.Call):
            return None, False
        f = e.func
        if me is not None and isinstance(f, ast.Attribute) and isinstance(f.value, ast.Name) and f.value.id == me and f.attr in helpers:
            h = helpers[f.attr]
        elif me is None and isinstance(f, ast.Name) and f.id in helpers:
            h = helpers[f.id]
        else:
            return None, False
        if isinstance(h, ast.AsyncFunctionDef) != awaited:
            return None, False
        return e, awaited

    def _prepared(self, h: ast.AST, call: ast.Call, is_method: bool, caller_locals: Set[str], allow_temps: bool = False) -> Optional[Tuple[List[ast.stmt], Dict[str, ast.expr], Dict[str, str]]]:
        body = _strip_doc(list(h.body))  # type: ignore[attr-defined]
        m = _bind(h, call, is_method)
        if m is None:
            return None
        self.temps: List[ast.stmt] = []
        self.rebound: Dict[str, str] = {}
        if allow_temps and not _args_ok(h, m, body):
            # an argument with an effect that the helper reads more than once is evaluated once, into a local named after the
            # parameter, before the body (arguments are evaluated before the body anyway)
            m = dict(m)
            for p_, a_ in list(m.items()):
                complex_ = any(isinstance(x, (ast.Call, ast.Await, ast.NamedExpr)) for x in ast.walk(a_))
                rebound = any(isinstance(x, ast.Name) and x.id == p_ and isinstance(x.ctx, (ast.Store, ast.Del)) for st_ in body for x in ast.walk(st_))
                if rebound:
                    # a parameter the helper rebinds (`number += 1`) is a local of its own, initialised with the argument
                    tmp = f'{p_}__{h.name.strip("_")}'  # type: ignore[attr-defined]
                    self.temps.append(ast.copy_location(ast.Assign(targets=[ast.copy_location(ast.Name(id=tmp, ctx=ast.Store()), a_)], value=a_), a_))
                    del m[p_]
                    self.rebound[p_] = tmp
                    continue
                if complex_ and _uses(body, p_) > 1:
                    tmp = f'{p_}__{h.name.strip("_")}'  # type: ignore[attr-defined]
                    self.temps.append(ast.copy_location(ast.Assign(targets=[ast.copy_location(ast.Name(id=tmp, ctx=ast.Store()), a_)], value=a_), a_))
                    m[p_] = ast.copy_location(ast.Name(id=tmp, ctx=ast.Load()), a_)
        if not _args_ok(h, m, body):
            return None
        if is_method:
            # the helper's own first parameter is the caller's receiver
            m = dict(m)
        locs = _locals_of(body) - set(m)
        ren = {v: f'{v}__{h.name.strip("_")}' for v in locs}  # type: ignore[attr-defined]
        ren.update(self.rebound)
        return body, m, ren

    def rewrite_function(self, fn: ast.AST, helpers: Dict[str, ast.AST], is_method: bool) -> None:
        me = fn.args.args[0].arg if is_method and fn.args.args else None  # type: ignore[attr-defined]
        if is_method and me is None:
            return
        helpers = {k: v for k, v in helpers.items() if v is not fn}
        if not helpers:
            return
        caller_locals = _locals_of(fn.body)  # type: ignore[attr-defined]

        def subst(h: ast.AST, nodes: List[ast.stmt], m: Dict[str, ast.expr], ren: Dict[str, str]) -> List[ast.stmt]:
            mm = dict(m)
            if is_method:
                hself = h.args.args[0].arg  # type: ignore[attr-defined]
                mm[hself] = ast.Name(id=me, ctx=ast.Load())
            s = _Subst(mm, ren)
            return [ast.fix_missing_locations(s.visit(copy.deepcopy(x))) for x in nodes]

        def block(body: List[ast.stmt]) -> List[ast.stmt]:
            out: List[ast.stmt] = []
            for st in body:
                for fld in ('body', 'orelse', 'finalbody'):
                    sub = getattr(st, fld, None)
                    if isinstance(sub, list) and sub and isinstance(sub[0], ast.stmt) and not isinstance(st, (ast.FunctionDef, ast.AsyncFunctionDef, ast.ClassDef)):
                        setattr(st, fld, block(sub))
                for hd in getattr(st, 'handlers', []) or []:
                    hd.body = block(hd.body)
                # ---- statement form
                if isinstance(st, ast.Expr):
                    call, _aw = self._call_of(st.value, helpers, me)
                    if call is not None:
                        h = helpers[call.func.attr if isinstance(call.func, ast.Attribute) else call.func.id]  # type: ignore[union-attr]
                        prep = self._prepared(h, call, is_method, caller_locals, allow_temps=True)
                        if prep is not None:
                            hb, m, ren = prep
                            nested = _guard_nest(hb)
                            if nested is not None:
                                new = [ast.fix_missing_locations(t_) for t_ in self.temps] + subst(h, nested, m, ren)
                                out.extend(ast.copy_location(x, st) if not hasattr(x, 'lineno') else x for x in (new or [ast.copy_location(ast.Pass(), st)]))
                                self.count += 1
                                self.names.append(h.name)  # type: ignore[attr-defined]
                                continue
                # ---- value forms: the call is the whole value of an assignment / return, or the whole test of an `if`
                holder, attr = None, None
                if isinstance(st, (ast.Assign, ast.AnnAssign, ast.Return)) and st.value is not None:
                    holder, attr = st, 'value'
                elif isinstance(st, (ast.If, ast.While)):
                    holder, attr = st, 'test'
                if holder is not None:
                    val = getattr(holder, attr)
                    neg = False
                    inner = val
                    if isinstance(inner, ast.UnaryOp) and isinstance(inner.op, ast.Not):
                        inner, neg = inner.operand, True
                    call, _aw = self._call_of(inner, helpers, me)
                    if call is not None and not (isinstance(st, ast.While)):
                        h = helpers[call.func.attr if isinstance(call.func, ast.Attribute) else call.func.id]  # type: ignore[union-attr]
                        prep = self._prepared(h, call, is_method, caller_locals)
                        if prep is not None:
                            hb, m, ren = prep
                            e = _fold_expr(hb)
                            if e is not None:
                                ne = subst(h, [ast.Expr(value=e)], m, ren)[0].value  # type: ignore[attr-defined]
                                ne = ast.copy_location(ne, inner)
                                setattr(holder, attr, ast.copy_location(ast.UnaryOp(op=ast.Not(), operand=ne), val) if neg else ne)
                                ast.fix_missing_locations(holder)
                                self.count += 1
                                self.names.append(h.name)  # type: ignore[attr-defined]
                                out.append(st)
                                continue
                            # tail form: `return self._h(a)` -- the helper's returns ARE the caller's returns, so its whole body
                            # takes the place of the statement (falling off its end returns None)
                            if isinstance(st, ast.Return) and not neg:
                                prep_t = self._prepared(h, call, is_method, caller_locals, allow_temps=True)
                                if prep_t is not None:
                                    hb_t, m_t, ren_t = prep_t
                                    new_t = [ast.fix_missing_locations(t_) for t_ in self.temps] + subst(h, hb_t, m_t, ren_t)
                                    if not new_t or not isinstance(new_t[-1], (ast.Return, ast.Raise)):
                                        new_t.append(ast.copy_location(ast.Return(value=None), st))
                                    out.extend(new_t)
                                    self.count += 1
                                    self.names.append(h.name)  # type: ignore[attr-defined]
                                    continue
                        prep = self._prepared(h, call, is_method, caller_locals, allow_temps=True) if prep is None else prep
                        if prep is not None:
                            hb, m, ren = prep
                            # block-value form: statements, then one final `return <expr>`
                            if hb and isinstance(hb[-1], ast.Return) and hb[-1].value is not None and not any(isinstance(x, ast.Return) for b in hb[:-1] for x in ast.walk(b)) and not neg and isinstance(st, (ast.Assign, ast.AnnAssign, ast.Return)):
                                pre = [ast.fix_missing_locations(t_) for t_ in self.temps] + subst(h, hb[:-1], m, ren)
                                fin = subst(h, [ast.Expr(value=hb[-1].value)], m, ren)[0].value  # type: ignore[attr-defined]
                                out.extend(pre)
                                setattr(holder, attr, ast.copy_location(fin, inner))
                                ast.fix_missing_locations(holder)
                                self.count += 1
                                self.names.append(h.name)  # type: ignore[attr-defined]
                                out.append(st)
                                continue
                out.append(st)
            return out

        fn.body = block(fn.body)  # type: ignore[attr-defined]

        # ---- expression form: a call anywhere inside an expression of a (synchronous) helper whose body folds into ONE
        # expression is replaced by that expression
        outer = self

        class _InExpr(ast.NodeTransformer):
            def visit_FunctionDef(self, n: ast.AST) -> ast.AST:
                return n if n is not fn else self.generic_visit(n)

            visit_AsyncFunctionDef = visit_FunctionDef

            def visit_Lambda(self, n: ast.Lambda) -> ast.AST:
                return n

            def visit_Call(self, c: ast.Call) -> ast.AST:
                self.generic_visit(c)
                call, aw = outer._call_of(c, helpers, me)
                if call is None or aw:
                    return c
                h = helpers[call.func.attr if isinstance(call.func, ast.Attribute) else call.func.id]  # type: ignore[union-attr]
                if isinstance(h, ast.AsyncFunctionDef):
                    return c
                prep = outer._prepared(h, call, is_method, caller_locals)
                if prep is None:
                    return c
                hb, m, ren = prep
                e = _fold_expr(hb)
                if e is None:
                    return c
                ne = subst(h, [ast.Expr(value=e)], m, ren)[0].value  # type: ignore[attr-defined]
                if not isinstance(ne, ast.Call):
                    ast.copy_location(ne, c)
                outer.count += 1
                outer.names.append(h.name)  # type: ignore[attr-defined]
                return ne

        _InExpr().visit(fn)

    def run(self, tree: ast.Module) -> None:
        mod_helpers = self.helpers_of(tree.body)
        for st in tree.body:
            if isinstance(st, (ast.FunctionDef, ast.AsyncFunctionDef)):
                self.rewrite_function(st, mod_helpers, False)
            elif isinstance(st, ast.ClassDef):
                ch = self.helpers_of(st.body)
                for m_ in st.body:
                    if isinstance(m_, (ast.FunctionDef, ast.AsyncFunctionDef)):
                        if not any(isinstance(d, ast.Name) and d.id == 'staticmethod' for d in m_.decorator_list):
                            self.rewrite_function(m_, ch, True)
                        self.rewrite_function(m_, mod_helpers, False)


def names_used(tree: ast.AST) -> Set[str]:
    """Every identifier and attribute name that occurs in the tree (definitions excluded)."""
    out: Set[str] = set()
    for x in ast.walk(tree):
        if isinstance(x, ast.Name):
            out.add(x.id)
        elif isinstance(x, ast.Attribute):
            out.add(x.attr)
        elif isinstance(x, ast.alias):
            out.add(x.name.split('.')[-1])
            if x.asname:
                out.add(x.asname)
    return out


def inline_unknown_helpers(tree: ast.Module, external_names: Optional[Set[str]] = None) -> Tuple[int, List[str]]:
    """Inline; then drop the definition of every helper that was inlined at all its call sites and is mentioned nowhere else
    (in this module, or -- `external_names` -- in any other module of the program): it is dead code, and a rule that lists the
    routines of a class must not judge its body out of the context it runs in."""
    inl = _Inliner(known_names())
    # two rounds: a helper may itself call an unknown helper
    for _ in range(2):
        inl.run(tree)
    inlined = set(inl.names)
    if inlined:
        defs = [(parent, st) for parent in [tree] + [c for c in tree.body if isinstance(c, ast.ClassDef)] for st in parent.body
                if isinstance(st, (ast.FunctionDef, ast.AsyncFunctionDef)) and st.name in inlined]
        for parent, st in defs:
            parent.body.remove(st)
            still = names_used(tree) | (external_names or set())
            if st.name in still:
                parent.body.append(st)  # still referenced (a callback, another module, a call site that did not qualify)
            elif not parent.body:
                parent.body.append(ast.copy_location(ast.Pass(), st))
    ast.fix_missing_locations(tree)
    return inl.count, sorted(set(inl.names))

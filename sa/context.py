"""Shared, lazily built engines for one check run."""
from __future__ import annotations

from typing import Any, Dict, Optional

from .pm import Program


class Context:
    def __init__(self, repo: str = '/repo', tier: str = 'quick') -> None:
        self.repo = repo
        self.tier = tier
        self.prog = Program(repo)
        self._ty: Optional[Any] = None
        self._cg: Optional[Any] = None
        self._ex: Optional[Any] = None
        self.counters: Dict[str, Any] = {}

    @property
    def ty(self) -> Any:
        if self._ty is None:
            from .ty import TypeOracle

            self._ty = TypeOracle(self.prog.src)
        return self._ty

    @property
    def cg(self) -> Any:
        if self._cg is None:
            from .cg import CallGraph

            self._cg = CallGraph(self.prog, self.ty)
        return self._cg

    def stats(self) -> Dict[str, Any]:
        d: Dict[str, Any] = dict(self.prog.stats())
        d['source_digest'] = self.prog.digest()
        if self._ty is not None:
            d['type_oracle'] = {
                'engine': 'mypy (library, /venv)',
                'build_s': self._ty.build_s,
                'expressions_typed': len(self._ty.types),
                'call_exprs': self._ty.n_calls,
                'call_exprs_resolved_by_oracle': self._ty.n_resolved,
                'diagnostics': len(self._ty.errors),
            }
        if self._cg is not None:
            d['call_graph'] = self._cg.stats()
        return d

    def evidence_extra(self) -> Dict[str, Any]:
        return dict(self.counters)

"""LN -- length / interval domain, path-sensitive over the CFG.

Tracks, for locals (and `self.x` attributes keyed by their text), an interval of
lengths (str / bytes / list) or of integer values; refines on branch tests
including short-circuit `and` / `or`; records for every constant-index subscript
and every `.pop()` whether the bound is proved on *all* paths reaching it.
Also decides loop variants (every trip around a `while` strictly increases the
loop variable)."""
from __future__ import annotations

import ast
import math
from typing import Any, Callable, Dict, List, Optional, Set, Tuple

from . import AnalysisError
from .cf import CFG, Node, cfg_of
from .pm import FuncInfo, Program, call_name, norm, walk_local_ordered

INF = math.inf
Iv = Tuple[float, float]
TOP: Iv = (0, INF)
ITOP: Iv = (-INF, INF)


def _meet(a: Iv, b: Iv) -> Optional[Iv]:
    lo, hi = max(a[0], b[0]), min(a[1], b[1])
    return (lo, hi) if lo <= hi else None


class State:
    __slots__ = ('lens', 'ints')

    def __init__(self, lens: Optional[Dict[str, Iv]] = None, ints: Optional[Dict[str, Iv]] = None) -> None:
        self.lens = dict(lens or {})
        self.ints = dict(ints or {})

    def copy(self) -> 'State':
        return State(self.lens, self.ints)


class LenAnalysis:
    def __init__(self, ctx: Any, f: FuncInfo) -> None:
        self.ctx = ctx
        self.prog: Program = ctx.prog
        self.f = f
        self.m = f.module
        self.cfg = cfg_of(f.node)
        # site id -> [n_paths_ok, n_paths_bad, node]
        self.sites: Dict[int, List[Any]] = {}

    # ---------------------------------------------------------------- values
    def _key(self, e: ast.AST) -> Optional[str]:
        if isinstance(e, ast.Name):
            return e.id
        if isinstance(e, ast.Attribute) and isinstance(e.value, ast.Name):
            return norm(e)
        return None

    def _const(self, e: ast.AST) -> Optional[Any]:
        ok, v = self.prog.try_fold(self.m, e)
        return v if ok else None

    def length_of(self, e: ast.AST, st: State) -> Iv:
        k = self._key(e)
        if k is not None and k in st.lens:
            return st.lens[k]
        c = self._const(e)
        if isinstance(c, (str, bytes, tuple, list, frozenset)):
            return (len(c), len(c))
        if isinstance(e, (ast.List, ast.Tuple)) and not any(isinstance(x, ast.Starred) for x in e.elts):
            return (len(e.elts), len(e.elts))
        if isinstance(e, ast.Subscript) and isinstance(e.slice, ast.Slice):
            base = self.length_of(e.value, st)
            sl = e.slice
            lo_c = self._int_const(sl.lower) if sl.lower is not None else 0
            if sl.upper is None and sl.step is None and isinstance(lo_c, int) and lo_c >= 0:
                return (max(0, base[0] - lo_c), max(0, base[1] - lo_c))
            if sl.upper is None and sl.step is None and isinstance(lo_c, int) and lo_c < 0:
                return (min(base[0], -lo_c), min(base[1], -lo_c))
            return (0, base[1])
        if isinstance(e, ast.Call) and isinstance(e.func, ast.Attribute):
            if e.func.attr in ('split', 'rsplit') and not (len(e.args) > 1):
                return (1, INF)
            if e.func.attr in ('lower', 'upper'):
                return self.length_of(e.func.value, st)
        if isinstance(e, ast.BinOp) and isinstance(e.op, ast.Add):
            a, b = self.length_of(e.left, st), self.length_of(e.right, st)
            return (a[0] + b[0], a[1] + b[1])
        if isinstance(e, ast.IfExp):
            a, b = self.length_of(e.body, st), self.length_of(e.orelse, st)
            return (min(a[0], b[0]), max(a[1], b[1]))
        return TOP

    def _int_const(self, e: Optional[ast.AST]) -> Optional[int]:
        if e is None:
            return None
        c = self._const(e)
        if isinstance(c, int) and not isinstance(c, bool):
            return c
        if isinstance(e, ast.UnaryOp) and isinstance(e.op, ast.USub):
            v = self._int_const(e.operand)
            return -v if v is not None else None
        return None

    def int_of(self, e: ast.AST, st: State) -> Iv:
        c = self._const(e)
        if isinstance(c, (int, float)) and not isinstance(c, bool):
            return (c, c)
        k = self._key(e)
        if k is not None and k in st.ints:
            return st.ints[k]
        if isinstance(e, ast.Call) and norm(e.func) == 'len' and len(e.args) == 1:
            return self.length_of(e.args[0], st)
        if isinstance(e, ast.Subscript) and not isinstance(e.slice, ast.Slice):
            td = self.ctx.ty.type_of(self.m.name, e.value)
            if td and td[0] == 'inst' and td[1] in ('builtins.bytes', 'builtins.bytearray', 'builtins.memoryview'):
                return (0, 255)
        if isinstance(e, ast.BinOp):
            a, b = self.int_of(e.left, st), self.int_of(e.right, st)
            if isinstance(e.op, ast.Add):
                return (a[0] + b[0], a[1] + b[1])
            if isinstance(e.op, ast.Sub):
                return (a[0] - b[1], a[1] - b[0])
            if isinstance(e.op, ast.Mult) and a[0] >= 0 and b[0] >= 0:
                return (a[0] * b[0], a[1] * b[1] if INF not in (a[1], b[1]) else INF)
            if isinstance(e.op, ast.BitAnd):
                cands = [x[1] for x in (a, b) if x[0] >= 0 and x[1] != INF]
                if cands:
                    return (0, min(cands))
        return ITOP

    # ------------------------------------------------------------ obligations
    def _site(self, node: ast.AST, ok: bool) -> None:
        rec = self.sites.setdefault(id(node), [0, 0, node])
        rec[0 if ok else 1] += 1

    def visit(self, e: ast.AST, st: State) -> None:
        """Record obligations of sub-expressions evaluated unconditionally in `e`
        (BoolOp / IfExp operands are handled by `cond`)."""
        if isinstance(e, ast.BoolOp):
            self.cond(e, st)
            return
        if isinstance(e, ast.IfExp):
            t, f_ = self.cond(e.test, st)
            for s in t:
                self.visit(e.body, s)
            for s in f_:
                self.visit(e.orelse, s)
            return
        if isinstance(e, (ast.Lambda, ast.FunctionDef, ast.AsyncFunctionDef)):
            return
        if isinstance(e, ast.Subscript) and isinstance(e.ctx, ast.Load) and not isinstance(e.slice, ast.Slice):
            idx = self._int_const(e.slice)
            ln = self.length_of(e.value, st)
            if idx is not None:
                need = idx + 1 if idx >= 0 else -idx
                self._site(e, ln[0] >= need)
            else:
                self._site(e, False)
        if isinstance(e, ast.Call) and isinstance(e.func, ast.Attribute) and e.func.attr == 'pop' and not e.args:
            k = self._key(e.func.value)
            ln = self.length_of(e.func.value, st)
            self._site(e, ln[0] >= 1)
            if k is not None and k in st.lens:
                st.lens[k] = (max(0, ln[0] - 1), max(0, ln[1] - 1))
        for c in ast.iter_child_nodes(e):
            if isinstance(c, ast.expr):
                self.visit(c, st)
            elif isinstance(c, ast.comprehension):
                # the iterable (and, conservatively with the same lengths, the filters) of a comprehension
                self.visit(c.iter, st)
                for cond_ in c.ifs:
                    self.visit(cond_, st.copy())

    # ------------------------------------------------------------ conditions
    def cond(self, e: ast.AST, st: State) -> Tuple[List[State], List[State]]:
        if isinstance(e, ast.BoolOp):
            if isinstance(e.op, ast.And):
                ts, fs = [st], []
                for v in e.values:
                    nt: List[State] = []
                    for s in ts:
                        t, f_ = self.cond(v, s)
                        nt.extend(t)
                        fs.extend(f_)
                    ts = nt
                return ts, fs
            ts, fs = [], [st]
            for v in e.values:
                nf: List[State] = []
                for s in fs:
                    t, f_ = self.cond(v, s)
                    ts.extend(t)
                    nf.extend(f_)
                fs = nf
            return ts, fs
        if isinstance(e, ast.UnaryOp) and isinstance(e.op, ast.Not):
            t, f_ = self.cond(e.operand, st)
            return f_, t
        self.visit(e, st)
        k = self._key(e)
        if k is not None:
            if k in st.lens:
                return self._refine_len(st, k, (1, INF)), self._refine_len(st, k, (0, 0))
            if k in st.ints:
                iv = st.ints[k]
                t = st.copy()
                if iv[0] == 0:
                    t.ints[k] = (1, iv[1])
                f_ = st.copy()
                f_.ints[k] = (0, 0)
                return ([t] if iv != (0, 0) else []), ([f_] if iv[0] <= 0 <= iv[1] else [])
            return [st.copy()], [st.copy()]
        if isinstance(e, ast.Compare) and len(e.ops) == 1:
            return self._compare(e, st)
        c = self._const(e)
        if c is not None:
            return ([st.copy()], []) if c else ([], [st.copy()])
        return [st.copy()], [st.copy()]

    def _refine_len(self, st: State, k: str, iv: Iv) -> List[State]:
        m = _meet(st.lens.get(k, TOP), iv)
        if m is None:
            return []
        s = st.copy()
        s.lens[k] = m
        return [s]

    def _compare(self, e: ast.Compare, st: State) -> Tuple[List[State], List[State]]:
        left, op, right = e.left, e.ops[0], e.comparators[0]
        # normalise to  <quantity> OP <const>
        def quantity(x: ast.AST) -> Optional[Tuple[str, str]]:
            if isinstance(x, ast.Call) and norm(x.func) == 'len' and len(x.args) == 1:
                k = self._key(x.args[0])
                return ('len', k) if k else None
            k = self._key(x)
            if k is not None and k in st.ints:
                return ('int', k)
            return None

        ql, qr = quantity(left), quantity(right)
        cl, cr = self.int_of(left, st), self.int_of(right, st)
        flip = {ast.Lt: ast.Gt, ast.Gt: ast.Lt, ast.LtE: ast.GtE, ast.GtE: ast.LtE, ast.Eq: ast.Eq, ast.NotEq: ast.NotEq}
        if ql is None and qr is not None and type(op) in flip:
            ql, cr, op = qr, cl, flip[type(op)]()
        if ql is None or cr[0] != cr[1] or cr[0] in (INF, -INF):
            return [st.copy()], [st.copy()]
        c = cr[0]
        kind, k = ql
        dom = st.lens if kind == 'len' else st.ints
        cur = dom.get(k, TOP if kind == 'len' else ITOP)
        lo_min = 0 if kind == 'len' else -INF

        def with_iv(iv: Optional[Iv]) -> List[State]:
            if iv is None:
                return []
            m = _meet(cur, iv)
            if m is None:
                return []
            s = st.copy()
            (s.lens if kind == 'len' else s.ints)[k] = m
            return [s]

        def ne(cv: float) -> List[State]:
            out = []
            if cur[0] == cv:
                out = with_iv((cv + 1, INF))
            elif cur[1] == cv:
                out = with_iv((lo_min, cv - 1))
            else:
                out = [st.copy()]
            return out

        if isinstance(op, ast.Eq):
            return with_iv((c, c)), ne(c)
        if isinstance(op, ast.NotEq):
            return ne(c), with_iv((c, c))
        if isinstance(op, ast.Lt):
            return with_iv((lo_min, c - 1)), with_iv((c, INF))
        if isinstance(op, ast.LtE):
            return with_iv((lo_min, c)), with_iv((c + 1, INF))
        if isinstance(op, ast.Gt):
            return with_iv((c + 1, INF)), with_iv((lo_min, c))
        if isinstance(op, ast.GtE):
            return with_iv((c, INF)), with_iv((lo_min, c - 1))
        return [st.copy()], [st.copy()]

    # ------------------------------------------------------------ statements
    def assign(self, stn: ast.AST, st: State) -> None:
        if isinstance(stn, ast.Assign) and len(stn.targets) == 1:
            self.visit(stn.value, st)
            self._bind(stn.targets[0], stn.value, st)
        elif isinstance(stn, ast.AnnAssign) and stn.value is not None:
            self.visit(stn.value, st)
            self._bind(stn.target, stn.value, st)
        elif isinstance(stn, ast.AugAssign):
            self.visit(stn.value, st)
            k = self._key(stn.target)
            if k is not None:
                cur = st.ints.get(k, ITOP)
                d = self.int_of(stn.value, st)
                if isinstance(stn.op, ast.Add):
                    st.ints[k] = (cur[0] + d[0], cur[1] + d[1])
                elif isinstance(stn.op, ast.Sub):
                    st.ints[k] = (cur[0] - d[1], cur[1] - d[0])
                else:
                    st.ints[k] = ITOP
                st.lens.pop(k, None)
        else:
            for c in ast.iter_child_nodes(stn):
                if isinstance(c, ast.expr):
                    self.visit(c, st)

    def _bind(self, t: ast.AST, v: ast.AST, st: State) -> None:
        k = self._key(t)
        if k is None:
            if isinstance(t, (ast.Tuple, ast.List)):
                for x in t.elts:
                    kk = self._key(x)
                    if kk:
                        st.lens.pop(kk, None)
                        st.ints.pop(kk, None)
            return
        st.lens.pop(k, None)
        st.ints.pop(k, None)
        if isinstance(v, ast.Call) and isinstance(v.func, ast.Attribute) and v.func.attr == 'pop':
            st.lens[k] = TOP  # an element of unknown length
            return
        ln = self.length_of(v, st)
        iv = self.int_of(v, st)
        td = self.ctx.ty.type_of(self.m.name, v)
        tn = td[1] if td and td[0] == 'inst' else ''
        if tn in ('builtins.int', 'builtins.float', 'builtins.bool'):
            st.ints[k] = iv
        elif tn in ('builtins.str', 'builtins.bytes', 'builtins.list', 'builtins.tuple', 'builtins.bytearray') or ln != TOP:
            st.lens[k] = ln
        elif iv != ITOP:
            st.ints[k] = iv

    # ----------------------------------------------------------------- walk
    def run(self, limit: int = 400000) -> None:
        """Explore every acyclic path (loops once) recording subscript / pop obligations."""
        stack: List[Tuple[Node, State, Dict[int, int]]] = [(self.cfg.entry, State(), {})]
        steps = 0
        while stack:
            node, st, used = stack.pop()
            steps += 1
            if steps > limit:
                raise AnalysisError(f'LN: path explosion in {self.f.where()}')
            if node in (self.cfg.exit, self.cfg.raise_exit):
                continue
            branches: Dict[Any, List[State]] = {}
            # state an exception handler starts from: the state before this node, minus what the node may have rebound
            pre = st.copy()
            if node.ast is not None:
                for x in ast.walk(node.ast):
                    if isinstance(x, (ast.Name, ast.Attribute, ast.Subscript)) and isinstance(getattr(x, 'ctx', None), (ast.Store, ast.Del)):
                        kk0 = self._key(x.value if isinstance(x, ast.Subscript) else x)
                        if kk0:
                            pre.lens.pop(kk0, None)
                            pre.ints.pop(kk0, None)
                    if isinstance(x, ast.Call) and isinstance(x.func, ast.Attribute) and x.func.attr in ('pop', 'append', 'extend', 'remove', 'insert', 'clear'):
                        kk0 = self._key(x.func.value)
                        if kk0:
                            pre.lens.pop(kk0, None)
            if node.kind in ('test', 'loop_test'):
                t, f_ = self.cond(node.ast, st.copy())  # type: ignore[arg-type]
                branches = {True: t, False: f_}
            elif node.kind == 'for':
                self.visit(node.ast.iter, st)  # type: ignore[attr-defined]
                s2 = st.copy()
                for x in ast.walk(node.ast.target):  # type: ignore[attr-defined]
                    kk = self._key(x)
                    if kk:
                        s2.lens.pop(kk, None)
                        s2.ints.pop(kk, None)
                branches = {'iter': [s2], 'done': [st.copy()]}
            elif node.kind in ('stmt', 'return', 'raise'):
                if node.kind == 'stmt':
                    self.assign(node.ast, st)  # type: ignore[arg-type]
                else:
                    for c in ast.iter_child_nodes(node.ast):  # type: ignore[arg-type]
                        if isinstance(c, ast.expr):
                            self.visit(c, st)
            elif node.kind == 'with':
                for x in node.exprs():
                    self.visit(x, st)
            for s, lab in node.succ:
                if lab == 'exc':
                    # into a handler of an enclosing try (not out of the function): the handler body is analysed too
                    if s is not self.cfg.raise_exit and s is not self.cfg.exit and (node.id, s.id) not in used.get(-1, ()):  # type: ignore[operator]
                        u2 = dict(used)
                        u2[-1] = tuple(used.get(-1, ())) + ((node.id, s.id),)  # type: ignore[assignment, arg-type]
                        stack.append((s, pre.copy(), u2))
                    continue
                is_back = isinstance(lab, tuple) and lab and lab[0] == 'back'
                elabel = lab[1] if is_back else lab
                nxt = branches.get(elabel, [st]) if branches else [st]
                enters = (node.kind == 'for' and elabel == 'iter') or (node.kind == 'loop_test' and elabel is True)
                u = used
                if enters:
                    if used.get(node.id, 0) >= 1:
                        continue
                    u = dict(used)
                    u[node.id] = 1
                for ns in nxt:
                    stack.append((s, ns.copy(), u))

    def proved(self, node: ast.AST) -> bool:
        rec = self.sites.get(id(node))
        return rec is not None and rec[1] == 0 and rec[0] > 0

    # --------------------------------------------------------- loop variants
    def while_variant(self, wnode: ast.While) -> Tuple[bool, str]:
        """Every trip around the loop strictly increases the variable of `v < bound`."""
        head = next((n for n in self.cfg.nodes if n.kind == 'loop_test' and n.ast is wnode.test), None)
        if head is None:
            return False, 'loop head not found'
        t = wnode.test
        if not (isinstance(t, ast.Compare) and len(t.ops) == 1 and isinstance(t.ops[0], (ast.Lt, ast.LtE, ast.Gt, ast.GtE))):
            return False, f'condition `{norm(t)}` is not `v < bound`'
        var = t.left if isinstance(t.ops[0], (ast.Lt, ast.LtE)) else t.comparators[0]
        bound = t.comparators[0] if isinstance(t.ops[0], (ast.Lt, ast.LtE)) else t.left
        vk = self._key(var)
        if vk is None:
            return False, f'loop variable `{norm(var)}` is not a plain name/attribute'
        bk = self._key(bound)
        n_paths = 0
        # `rel`: locals known to hold (value of the loop variable at the loop head) + [lo, hi]; the loop variable itself is `delta`
        stack: List[Tuple[Node, State, Iv, Dict[int, int], List[str], Dict[str, Iv]]] = []
        ts, _ = self.cond(t, State())
        for s, lab in head.succ:
            if lab is True:
                for st0 in ts:
                    stack.append((s, st0, (0, 0), {}, [], {}))

        def rel_of(e: ast.AST, st_: State, delta_: Iv, rel_: Dict[str, Iv]) -> Optional[Iv]:
            """`e` as (loop variable at the head) + interval, or None."""
            k_ = self._key(e)
            if k_ == vk:
                return delta_
            if k_ is not None and k_ in rel_:
                return rel_[k_]
            if isinstance(e, ast.BinOp) and isinstance(e.op, (ast.Add, ast.Sub)):
                l_ = rel_of(e.left, st_, delta_, rel_)
                if l_ is not None:
                    d_ = self.int_of(e.right, st_)
                    return (l_[0] + d_[0], l_[1] + d_[1]) if isinstance(e.op, ast.Add) else (l_[0] - d_[1], l_[1] - d_[0])
                if isinstance(e.op, ast.Add):
                    r_ = rel_of(e.right, st_, delta_, rel_)
                    if r_ is not None:
                        d_ = self.int_of(e.left, st_)
                        return (r_[0] + d_[0], r_[1] + d_[1])
            return None

        while stack:
            node, st, delta, used, trail, rel = stack.pop()
            if node is head:
                n_paths += 1
                if delta[0] < 1:
                    return False, f'a trip around the loop may advance `{vk}` by {delta[0]} (< 1): ' + ' ; '.join(trail[-6:])
                continue
            if node in (self.cfg.exit, self.cfg.raise_exit):
                continue
            branches: Dict[Any, List[State]] = {}
            if node.kind in ('test', 'loop_test'):
                tt, ff = self.cond(node.ast, st.copy())  # type: ignore[arg-type]
                branches = {True: tt, False: ff}
            elif node.kind == 'stmt':
                a = node.ast
                # does the statement touch the loop variable / the bound?
                for x in walk_local_ordered(a):
                    if isinstance(x, ast.Call) and vk.startswith('self.') and any(isinstance(y, ast.Name) and y.id == 'self' for y in ast.walk(x.func)):
                        return False, f'`{norm(x)[:60]}` may change `{vk}` arbitrarily'
                if isinstance(a, ast.AugAssign) and self._key(a.target) == vk:
                    d = self.int_of(a.value, st)
                    if isinstance(a.op, ast.Add):
                        delta = (delta[0] + d[0], delta[1] + d[1])
                    elif isinstance(a.op, ast.Sub):
                        delta = (delta[0] - d[1], delta[1] - d[0])
                    else:
                        return False, f'`{norm(a)}` is not an additive update'
                elif isinstance(a, (ast.Assign, ast.AnnAssign)) and any(self._key(tg) in (vk, bk) for tg in (a.targets if isinstance(a, ast.Assign) else [a.target])):
                    # `v = <v at the head, or a local derived from it> + k` is an additive update too
                    tgs = a.targets if isinstance(a, ast.Assign) else [a.target]
                    nd = rel_of(a.value, st, delta, rel) if len(tgs) == 1 and self._key(tgs[0]) == vk and a.value is not None else None
                    if nd is None:
                        return False, f'`{norm(a)}` reassigns the loop variable or its bound'
                    delta = nd
                elif isinstance(a, (ast.Assign, ast.AnnAssign)) and a.value is not None:
                    tgs = a.targets if isinstance(a, ast.Assign) else [a.target]
                    rel = dict(rel)
                    for tg in tgs:
                        for nm_ in ast.walk(tg):
                            if isinstance(nm_, ast.Name) and nm_.id in rel:
                                del rel[nm_.id]
                    if len(tgs) == 1 and isinstance(tgs[0], ast.Name):
                        nd = rel_of(a.value, st, delta, rel)
                        if nd is not None:
                            rel[tgs[0].id] = nd
                elif isinstance(a, ast.AugAssign) and bk is not None and self._key(a.target) == bk:
                    return False, f'`{norm(a)}` moves the bound'
                self.assign(a, st)
                trail = trail + [norm(a)[:50]]
            elif node.kind == 'for':
                s2 = st.copy()
                branches = {'iter': [s2], 'done': [st.copy()]}
            for s, lab in node.succ:
                if lab == 'exc':
                    continue
                is_back = isinstance(lab, tuple) and lab and lab[0] == 'back'
                elabel = lab[1] if is_back else lab
                nxt = branches.get(elabel, [st]) if branches else [st]
                enters = (node.kind == 'for' and elabel == 'iter') or (node.kind == 'loop_test' and elabel is True and node is not head)
                u = used
                if enters:
                    if used.get(node.id, 0) >= 1:
                        continue
                    u = dict(used)
                    u[node.id] = 1
                for ns in nxt:
                    stack.append((s, ns.copy(), delta, u, trail, rel))
        if n_paths == 0:
            return True, 'no path returns to the loop head (the body always leaves the loop)'
        return True, f'{n_paths} path(s) around the loop, each advances `{vk}` by at least 1'

"""Static-analysis engines for python-zeroconf (see /verif/DESIGN.md section 3)."""


class AnalysisError(Exception):
    """The analysis could not be carried out (anchor vanished, unclassified
    construct, oracle missing).  Exit code 2 -- never a silent pass and never a
    claim of violation."""

"""Static-analysis engines for python-zeroconf (see /verif/DESIGN.md section 3)."""


class AnalysisError(Exception):
    """The analysis could not be carried out (anchor vanished, unclassified
    construct, oracle missing).  Exit code 2 -- never a silent pass and never a
    claim of violation."""


class StructuralViolation(AnalysisError):
    """The construct a rule is about is ABSENT where its absence is itself the violation (the routine never notifies, the
    hash is never computed, the gate is never closed).  The driver turns it into a violated obligation of the rule that
    raised it (exit 1), unlike a plain AnalysisError (code the rule cannot read: exit 2)."""

    def __init__(self, file: str, function: str, construct: str, statement: str, why: str = '') -> None:
        super().__init__(f'{statement} ({why})' if why else statement)
        self.file, self.function, self.construct, self.statement, self.why = file, function, construct, statement, why

"""TY -- type oracle: mypy (the repository's own dev dependency, /venv) used as a
library.  Produces, for every expression, a small type descriptor, and for every
call expression the set of callee full names.  Trees are walked generically
(mypy's compiled visitors cannot be subclassed)."""
from __future__ import annotations

import ast
import os
import time
from typing import Any, Dict, List, Optional, Tuple

from . import AnalysisError

Pos = Tuple[str, int, int, int, int]

_SKIP_ATTRS = {
    'info', 'node', 'type', 'analyzed', 'unanalyzed_type', 'original_def', 'impl',
    'def_or_infer_vars', 'def_var', 'func', 'var',
}


def tdesc_str(t: Any) -> str:
    if t is None:
        return '?'
    k = t[0]
    if k == 'inst':
        return t[1] + ('[' + ', '.join(tdesc_str(a) for a in t[2]) + ']' if t[2] else '')
    if k == 'union':
        return ' | '.join(tdesc_str(a) for a in t[1])
    if k == 'tuple':
        return 'tuple[' + ', '.join(tdesc_str(a) for a in t[1]) + ']'
    if k == 'type':
        return f'type[{t[1]}]'
    return k if len(t) == 1 else f'{k}:{t[1]}'


class TypeOracle:
    def __init__(self, src_root: str, pkg: str = 'zeroconf') -> None:
        t0 = time.time()
        try:
            from mypy import build, nodes  # noqa: F401
            from mypy import types as mt
            from mypy.find_sources import create_source_list
            from mypy.options import Options
        except Exception as e:  # noqa: BLE001
            raise AnalysisError(f'type oracle missing: cannot import mypy from this interpreter ({e})') from e
        self._nodes = nodes
        self._mt = mt
        cwd = os.getcwd()
        os.chdir(src_root)
        try:
            opts = Options()
            opts.preserve_asts = True
            opts.export_types = True
            opts.incremental = False
            opts.cache_dir = os.devnull
            opts.ignore_missing_imports = True
            res = build.build(create_source_list([pkg], opts), opts)
        except Exception as e:  # noqa: BLE001
            raise AnalysisError(f'type oracle failed to build the package: {e}') from e
        finally:
            os.chdir(cwd)
        self.errors = list(res.errors)
        blocking = [e for e in self.errors if 'syntax' in e.lower()]
        if blocking:
            raise AnalysisError('type oracle: ' + '; '.join(blocking[:3]))
        self._types = res.types
        self.types: Dict[Pos, Any] = {}
        self.calls: Dict[Pos, List[str]] = {}
        self.call_recv: Dict[Pos, Any] = {}
        self.member_def: Dict[Pos, List[str]] = {}
        self.n_calls = 0
        self.n_resolved = 0
        for name, f in res.files.items():
            if name == pkg or name.startswith(pkg + '.'):
                self._index_file(name, f)
        self.build_s = round(time.time() - t0, 2)

    # ----------------------------------------------------------------- types
    def _desc(self, t: Any, depth: int = 0) -> Any:
        mt = self._mt
        if t is None or depth > 4:
            return None
        t = mt.get_proper_type(t)
        if isinstance(t, mt.Instance):
            return ('inst', t.type.fullname, tuple(self._desc(a, depth + 1) for a in t.args))
        if isinstance(t, mt.UnionType):
            return ('union', tuple(self._desc(i, depth + 1) for i in t.items))
        if isinstance(t, mt.NoneType):
            return ('none',)
        if isinstance(t, mt.AnyType):
            return ('any',)
        if isinstance(t, mt.TupleType):
            return ('tuple', tuple(self._desc(i, depth + 1) for i in t.items))
        if isinstance(t, mt.LiteralType):
            return self._desc(t.fallback, depth + 1)
        if isinstance(t, mt.TypeVarType):
            return self._desc(t.upper_bound, depth + 1)
        if isinstance(t, mt.TypeType):
            d = self._desc(t.item, depth + 1)
            return ('type', d[1]) if d and d[0] == 'inst' else ('type', '?')
        if isinstance(t, mt.CallableType):
            if t.is_type_obj():
                r = self._desc(t.ret_type, depth + 1)
                return ('type', r[1]) if r and r[0] == 'inst' else ('type', '?')
            d = getattr(t, 'definition', None)
            return ('callable', getattr(d, 'fullname', None) or '?')
        if isinstance(t, mt.Overloaded):
            return ('callable', '?')
        return ('other', type(t).__name__)

    def _infos(self, t: Any) -> List[Any]:
        """TypeInfos a receiver type may be (union members, Optional stripped)."""
        mt = self._mt
        t = mt.get_proper_type(t) if t is not None else None
        if isinstance(t, mt.Instance):
            return [t.type]
        if isinstance(t, mt.UnionType):
            out: List[Any] = []
            for i in t.items:
                out.extend(self._infos(i))
            return out
        if isinstance(t, mt.TupleType):
            return self._infos(t.partial_fallback)
        if isinstance(t, (mt.LiteralType,)):
            return self._infos(t.fallback)
        if isinstance(t, mt.TypeVarType):
            return self._infos(t.upper_bound)
        return []

    def _class_of_typeobj(self, t: Any) -> Optional[Any]:
        mt = self._mt
        t = mt.get_proper_type(t) if t is not None else None
        if isinstance(t, mt.CallableType) and t.is_type_obj():
            r = mt.get_proper_type(t.ret_type)
            if isinstance(r, mt.Instance):
                return r.type
            if isinstance(r, mt.TupleType):
                return r.partial_fallback.type
        if isinstance(t, mt.TypeType):
            r = mt.get_proper_type(t.item)
            if isinstance(r, mt.Instance):
                return r.type
        if isinstance(t, mt.Overloaded) and t.items and t.items[0].is_type_obj():
            return self._class_of_typeobj(t.items[0])
        return None

    @staticmethod
    def _defining(info: Any, name: str, skip_first: bool = False) -> Optional[str]:
        mro = info.mro[1:] if skip_first else info.mro
        for base in mro:
            if name in base.names:
                return f'{base.fullname}.{name}'
        return None

    # ----------------------------------------------------------------- index
    def _walk(self, n: Any, seen: set) -> Any:
        nodes = self._nodes
        stack = [n]
        while stack:
            n = stack.pop()
            if id(n) in seen:
                continue
            seen.add(id(n))
            yield n
            attrs = getattr(type(n), '__mypyc_attrs__', None)
            if attrs is None:
                attrs = [a for a in dir(n) if not a.startswith('__')]
            for a in attrs:
                if a in _SKIP_ATTRS or a.startswith('__'):
                    continue
                try:
                    v = getattr(n, a)
                except AttributeError:
                    continue
                if isinstance(v, nodes.Node):
                    stack.append(v)
                elif isinstance(v, (list, tuple)):
                    for x in v:
                        if isinstance(x, nodes.Node):
                            stack.append(x)
                        elif isinstance(x, (list, tuple)):
                            for y in x:
                                if isinstance(y, nodes.Node):
                                    stack.append(y)
            # Decorator wraps FuncDef in .func (skipped above to avoid dup) -- add explicitly
            if isinstance(n, nodes.Decorator):
                stack.append(n.func)
                stack.extend(n.decorators)

    def _pos(self, mod: str, n: Any) -> Optional[Pos]:
        el = getattr(n, 'end_line', None)
        ec = getattr(n, 'end_column', None)
        if el is None or ec is None or n.line < 0:
            return None
        return (mod, n.line, n.column, el, ec)

    def _index_file(self, mod: str, f: Any) -> None:
        nodes = self._nodes
        for n in self._walk(f, set()):
            if isinstance(n, nodes.Expression):
                p = self._pos(mod, n)
                if p is None:
                    continue
                t = self._types.get(n)
                if t is not None:
                    self.types[p] = self._desc(t)
                if isinstance(n, nodes.CallExpr):
                    self.n_calls += 1
                    tg, recv = self._resolve_call(n)
                    if tg:
                        self.n_resolved += 1
                        self.calls[p] = tg
                    if recv is not None:
                        self.call_recv[p] = recv
                elif isinstance(n, nodes.MemberExpr):
                    d = self._member_def(n)
                    if d:
                        self.member_def[p] = d

    def _member_def(self, n: Any) -> List[str]:
        out: List[str] = []
        rt = self._types.get(n.expr)
        for info in self._infos(rt):
            d = self._defining(info, n.name)
            if d:
                out.append(d)
        return out

    def _resolve_call(self, c: Any) -> Tuple[List[str], Any]:
        nodes = self._nodes
        callee = c.callee
        if isinstance(callee, nodes.NameExpr):
            nd = callee.node
            if isinstance(nd, nodes.TypeInfo):
                return [nd.fullname + '.__init__'], None
            if isinstance(nd, (nodes.FuncDef, nodes.Decorator, nodes.OverloadedFuncDef)):
                return [nd.fullname], None
            if isinstance(nd, nodes.Var):
                t = self._types.get(callee) or nd.type
                ci = self._class_of_typeobj(t)
                if ci is not None:
                    return [ci.fullname + '.__init__'], None
                d = self._desc(t)
                if d and d[0] == 'callable' and d[1] != '?':
                    return [d[1]], None
                return [], None
            if isinstance(nd, nodes.TypeAlias):
                t = self._mt.get_proper_type(nd.target)
                if isinstance(t, self._mt.Instance):
                    return [t.type.fullname + '.__init__'], None
            if callee.fullname:
                return [callee.fullname], None
            return [], None
        if isinstance(callee, nodes.MemberExpr):
            base = callee.expr
            # module attribute
            if isinstance(base, (nodes.NameExpr, nodes.MemberExpr)) and isinstance(
                getattr(base, 'node', None), nodes.MypyFile
            ):
                nd = callee.node
                if isinstance(nd, nodes.TypeInfo):
                    return [nd.fullname + '.__init__'], None
                if callee.fullname:
                    return [callee.fullname], None
            bt = self._types.get(base)
            # class object receiver (static / classmethod / unbound call)
            ci = self._class_of_typeobj(bt)
            if ci is not None:
                d = self._defining(ci, callee.name)
                return ([d] if d else []), ('type', ci.fullname)
            infos = self._infos(bt)
            out: List[str] = []
            for info in infos:
                d = self._defining(info, callee.name)
                if d and d not in out:
                    out.append(d)
            return out, self._desc(bt)
        if isinstance(callee, nodes.SuperExpr):
            info = callee.info
            if info is not None:
                d = self._defining(info, callee.name, skip_first=True)
                if d:
                    return [d], ('super', info.fullname)
            return [], None
        if isinstance(callee, nodes.CallExpr):
            # e.g. getattr(x, name)(...), partial(...)()  -- unresolved
            return [], None
        return [], None

    # ------------------------------------------------------------------- API
    @staticmethod
    def pos_of(modname: str, n: ast.AST) -> Pos:
        return (modname, n.lineno, n.col_offset, n.end_lineno, n.end_col_offset)  # type: ignore[attr-defined]

    def type_of(self, modname: str, n: ast.AST) -> Any:
        return self.types.get(self.pos_of(modname, n))

    def call_targets(self, modname: str, n: ast.Call) -> Optional[List[str]]:
        return self.calls.get(self.pos_of(modname, n))

    def recv_of_call(self, modname: str, n: ast.Call) -> Any:
        return self.call_recv.get(self.pos_of(modname, n))

    def member_defs(self, modname: str, n: ast.Attribute) -> List[str]:
        return self.member_def.get(self.pos_of(modname, n), [])

    def inst_names(self, t: Any) -> List[str]:
        """Class full names a descriptor may denote (None stripped)."""
        if t is None:
            return []
        if t[0] == 'inst':
            return [t[1]]
        if t[0] == 'union':
            out: List[str] = []
            for i in t[1]:
                out.extend(self.inst_names(i))
            return out
        if t[0] == 'tuple':
            return ['builtins.tuple']
        return []

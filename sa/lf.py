"""LF -- linear (polynomial) forms.

Normalises an arithmetic expression over named symbols and folded constants
into a polynomial  sum c_i * monomial_i  with Fraction coefficients, and a
comparison into `form  OP  0` with OP in {<=, <, ==, !=}.  No solver: polynomial
normalisation plus (optionally) interval evaluation."""
from __future__ import annotations

import ast
from fractions import Fraction
from typing import Any, Callable, Dict, Optional, Tuple

from . import AnalysisError
from .pm import Module, NotConst, Program, norm

Mono = Tuple[Tuple[str, int], ...]
Poly = Dict[Mono, Fraction]


class NotLinear(Exception):
    pass


def _clean(p: Poly) -> Poly:
    return {m: c for m, c in p.items() if c != 0}


def p_const(c: Any) -> Poly:
    return _clean({(): Fraction(c)})


def p_sym(s: str) -> Poly:
    return {((s, 1),): Fraction(1)}


def p_add(a: Poly, b: Poly, sign: int = 1) -> Poly:
    out = dict(a)
    for m, c in b.items():
        out[m] = out.get(m, Fraction(0)) + sign * c
    return _clean(out)


def p_mul(a: Poly, b: Poly) -> Poly:
    out: Poly = {}
    for m1, c1 in a.items():
        for m2, c2 in b.items():
            d: Dict[str, int] = {}
            for s, e in m1 + m2:
                d[s] = d.get(s, 0) + e
            m = tuple(sorted(d.items()))
            out[m] = out.get(m, Fraction(0)) + c1 * c2
    return _clean(out)


def p_scale(a: Poly, k: Fraction) -> Poly:
    return _clean({m: c * k for m, c in a.items()})


def p_str(p: Poly) -> str:
    if not p:
        return '0'
    parts = []
    for m, c in sorted(p.items(), key=lambda kv: (len(kv[0]), kv[0])):
        ms = '*'.join(s if e == 1 else f'{s}^{e}' for s, e in m)
        cs = str(c) if c.denominator != 1 else str(c.numerator)
        parts.append(cs if not ms else (ms if c == 1 else f'{cs}*{ms}'))
    return ' + '.join(parts).replace('+ -', '- ')


SymFn = Callable[[ast.AST], Optional[str]]


def default_sym(selfname: str = 'self') -> SymFn:
    def f(e: ast.AST) -> Optional[str]:
        if isinstance(e, ast.Attribute) and isinstance(e.value, ast.Name):
            return e.attr if e.value.id == selfname else f'{e.value.id}.{e.attr}'
        if isinstance(e, ast.Attribute) and isinstance(e.value, ast.Attribute):
            inner = f(e.value)
            return f'{inner}.{e.attr}' if inner else None
        if isinstance(e, ast.Name):
            return e.id
        return None

    return f


def poly(prog: Optional[Program], module: Optional[Module], e: ast.AST, sym: SymFn, env: Optional[Dict[str, Poly]] = None) -> Poly:
    """Polynomial of an expression; local names bound in `env` are substituted."""
    env = env or {}
    if isinstance(e, ast.Constant) and isinstance(e.value, (int, float)) and not isinstance(e.value, bool):
        return p_const(Fraction(e.value).limit_denominator(10**9))
    if isinstance(e, ast.Name) and e.id in env:
        return env[e.id]
    if prog is not None and module is not None and isinstance(e, (ast.Name, ast.Attribute, ast.Subscript)) and not (isinstance(e, ast.Name) and e.id in env):
        try:
            v = prog.fold(module, e)
            if isinstance(v, (int, float)) and not isinstance(v, bool):
                return p_const(Fraction(v).limit_denominator(10**9))
        except (NotConst, RecursionError):
            pass
    if isinstance(e, (ast.Name, ast.Attribute)):
        s = sym(e)
        if s is None:
            raise NotLinear(norm(e))
        return p_sym(s)
    if isinstance(e, ast.UnaryOp) and isinstance(e.op, (ast.USub, ast.UAdd)):
        p = poly(prog, module, e.operand, sym, env)
        return p_scale(p, Fraction(-1)) if isinstance(e.op, ast.USub) else p
    if isinstance(e, ast.BinOp):
        if isinstance(e.op, (ast.Add, ast.Sub)):
            return p_add(poly(prog, module, e.left, sym, env), poly(prog, module, e.right, sym, env), 1 if isinstance(e.op, ast.Add) else -1)
        if isinstance(e.op, ast.Mult):
            return p_mul(poly(prog, module, e.left, sym, env), poly(prog, module, e.right, sym, env))
        if isinstance(e.op, ast.Div):
            d = poly(prog, module, e.right, sym, env)
            if set(d) - {()} or not d:
                raise NotLinear('division by a non-constant: ' + norm(e))
            return p_scale(poly(prog, module, e.left, sym, env), 1 / d[()])
        if isinstance(e.op, ast.Pow):
            d = poly(prog, module, e.right, sym, env)
            if set(d) - {()} or not d or d[()].denominator != 1 or not (0 <= d[()] <= 6):
                raise NotLinear('non-constant exponent: ' + norm(e))
            out = p_const(1)
            base = poly(prog, module, e.left, sym, env)
            for _ in range(int(d[()])):
                out = p_mul(out, base)
            return out
    if isinstance(e, ast.Call) and norm(e.func) in ('float', 'int', '_float', '_int', 'float_', 'int_') and len(e.args) == 1:
        return poly(prog, module, e.args[0], sym, env)
    s = sym(e)  # let the caller name opaque sub-expressions (e.g. len(x))
    if s is not None:
        return p_sym(s)
    raise NotLinear(norm(e))


def comparison(prog: Optional[Program], module: Optional[Module], e: ast.AST, sym: SymFn, env: Optional[Dict[str, Poly]] = None) -> Tuple[Poly, str]:
    """`a OP b` -> (a - b normalised, op) with op in {'<=', '<', '==', '!='} (>, >= are flipped)."""
    if isinstance(e, ast.UnaryOp) and isinstance(e.op, ast.Not):
        p, op = comparison(prog, module, e.operand, sym, env)
        neg = {'<=': ('<', -1), '<': ('<=', -1), '==': ('!=', 1), '!=': ('==', 1)}[op]
        return (p_scale(p, Fraction(neg[1])), neg[0])
    if not (isinstance(e, ast.Compare) and len(e.ops) == 1):
        raise NotLinear('not a single comparison: ' + norm(e))
    a = poly(prog, module, e.left, sym, env)
    b = poly(prog, module, e.comparators[0], sym, env)
    op = e.ops[0]
    if isinstance(op, ast.LtE):
        return p_add(a, b, -1), '<='
    if isinstance(op, ast.Lt):
        return p_add(a, b, -1), '<'
    if isinstance(op, ast.GtE):
        return p_add(b, a, -1), '<='
    if isinstance(op, ast.Gt):
        return p_add(b, a, -1), '<'
    if isinstance(op, ast.Eq):
        return _canon_sign(p_add(a, b, -1)), '=='
    if isinstance(op, ast.NotEq):
        return _canon_sign(p_add(a, b, -1)), '!='
    raise NotLinear('unsupported comparison: ' + norm(e))


def _canon_sign(p: Poly) -> Poly:
    if not p:
        return p
    first = sorted(p.items(), key=lambda kv: (len(kv[0]), kv[0]))[-1]
    return p_scale(p, Fraction(-1)) if first[1] < 0 else p


def parse_poly(text: str) -> Poly:
    return poly(None, None, ast.parse(text, mode='eval').body, default_sym('\0'))


def parse_cmp(text: str) -> Tuple[Poly, str]:
    return comparison(None, None, ast.parse(text, mode='eval').body, default_sym('\0'))


def same_cmp(a: Tuple[Poly, str], b: Tuple[Poly, str]) -> bool:
    """Equality of two normalised comparisons up to positive scaling."""
    if a[1] != b[1]:
        return False
    pa, pb = a[0], b[0]
    if set(pa) != set(pb):
        return False
    if not pa:
        return True
    k = None
    for m in pa:
        r = pa[m] / pb[m]
        if k is None:
            k = r
        elif r != k:
            return False
    if a[1] in ('==', '!='):
        return k != 0
    return k is not None and k > 0

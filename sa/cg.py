"""CG -- call graph over the program model, resolved through the type oracle.

Edges: direct; virtual (class-hierarchy expansion over *library* subclasses);
deferred (function references handed to loop timers / task creators / partial);
boundary (calls into user-supplied callbacks, assumption A5).  Unresolved call
sites are listed and counted."""
from __future__ import annotations

import ast
from typing import Any, Dict, List, Optional, Set, Tuple

from .pm import ClassInfo, FuncInfo, Program, call_name, norm, walk_local_ordered
from .ty import TypeOracle

TIMER_APIS = {'call_at': 1, 'call_later': 1, 'call_soon': 0, 'call_soon_threadsafe': 0}
TASK_APIS = {'ensure_future', 'create_task', 'run_coroutine_threadsafe', 'run_coro_with_timeout', 'gather', 'wait_for'}
USER_EXTENSIBLE = {'zeroconf._updates.RecordUpdateListener', 'zeroconf._services.ServiceListener'}


class CallSite:
    __slots__ = ('caller', 'node', 'targets', 'ext', 'kind', 'boundary', 'unresolved', 'recv')

    def __init__(self, caller: FuncInfo, node: ast.Call) -> None:
        self.caller = caller
        self.node = node
        self.targets: List[FuncInfo] = []  # library callees
        self.ext: List[str] = []  # external callees (full names)
        self.kind = 'direct'
        self.boundary = False
        self.unresolved = False
        self.recv: Any = None

    @property
    def line(self) -> int:
        return self.node.lineno

    def text(self) -> str:
        return norm(self.node)


class DeferredRef:
    __slots__ = ('caller', 'api', 'call', 'ref', 'targets')

    def __init__(self, caller: FuncInfo, api: str, call: ast.Call, ref: ast.AST, targets: List[FuncInfo]) -> None:
        self.caller = caller
        self.api = api
        self.call = call
        self.ref = ref
        self.targets = targets


class CallGraph:
    def __init__(self, prog: Program, ty: TypeOracle) -> None:
        self.prog = prog
        self.ty = ty
        self.sites: Dict[str, List[CallSite]] = {}
        self.deferred: List[DeferredRef] = []
        self.callers: Dict[str, List[CallSite]] = {}
        self.unresolved: List[CallSite] = []
        self.byname_fallbacks: List[Tuple[str, int, str]] = []
        self.n_sites = 0
        for f in prog.functions.values():
            self._scan(f)
        for sites in self.sites.values():
            for s in sites:
                for t in s.targets:
                    self.callers.setdefault(t.full, []).append(s)

    # ------------------------------------------------------------- resolving
    def _lib_func(self, full: str) -> Optional[FuncInfo]:
        """Map a mypy full name to a library FuncInfo (walk MRO for inherited)."""
        if full in self.prog.functions:
            return self.prog.functions[full]
        if '.' in full:
            cfull, name = full.rsplit('.', 1)
            ci = self.prog.classes.get(cfull)
            if ci is not None:
                return ci.find_method(name)
        return None

    def _expand_virtual(self, recv_classes: List[ClassInfo], name: str) -> List[FuncInfo]:
        out: List[FuncInfo] = []
        for c in recv_classes:
            for s in c.all_subclasses():
                if name in s.methods and s.methods[name] not in out:
                    out.append(s.methods[name])
        return out

    def resolve_ref(self, f: FuncInfo, e: ast.AST) -> List[FuncInfo]:
        """Resolve a function *reference* (not a call): `self.m`, `obj.m`, `name`."""
        out: List[FuncInfo] = []
        m = f.module
        if isinstance(e, ast.Attribute):
            for d in self.ty.member_defs(m.name, e):
                lf = self._lib_func(d)
                if lf and lf not in out:
                    out.append(lf)
            if not out and isinstance(e.value, ast.Name) and e.value.id == 'self':
                c = self._enclosing_class(f)
                if c is not None:
                    lf = c.find_method(e.attr)
                    if lf:
                        out.append(lf)
                        out.extend(x for x in self._expand_virtual([c], e.attr) if x not in out)
            if not out:
                r = self.prog.resolve_expr(m, e)
                if r and r[0] == 'func':
                    out.append(r[1])
        elif isinstance(e, ast.Name):
            # nested function of the caller?
            nested = f.module.functions.get(f'{f.qual}.<locals>.{e.id}')
            if nested:
                return [nested]
            r = self.prog.resolve_name(m, e.id)
            if r and r[0] == 'func':
                out.append(r[1])
        return out

    def _enclosing_class(self, f: FuncInfo) -> Optional[ClassInfo]:
        if f.cls is not None:
            return f.cls
        # nested function inside a method: Class.method.<locals>.g
        head = f.qual.split('.')[0]
        return f.module.classes.get(head)

    def _scan(self, f: FuncInfo) -> None:
        m = f.module
        sites: List[CallSite] = []
        for n in walk_local_ordered(f.node):
            if isinstance(n, ast.Lambda):
                for sub in ast.walk(n.body):
                    if isinstance(sub, ast.Call):
                        sites.append(self._site(f, sub, 'deferred'))
                continue
            if not isinstance(n, ast.Call):
                continue
            if n is f.node:
                continue
            s = self._site(f, n, 'direct')
            sites.append(s)
            api = call_name(n)
            if api in TIMER_APIS or api in TASK_APIS or api == 'partial':
                for a in n.args:
                    if isinstance(a, (ast.Attribute, ast.Name)):
                        tg = self.resolve_ref(f, a)
                        if tg:
                            self.deferred.append(DeferredRef(f, api, n, a, tg))
        # decorators of nested defs etc. are ignored
        self.sites[f.full] = sites
        self.n_sites += len(sites)

    def _site(self, f: FuncInfo, n: ast.Call, kind: str) -> CallSite:
        m = f.module
        s = CallSite(f, n)
        s.kind = kind
        tgs = self.ty.call_targets(m.name, n)
        recv = self.ty.recv_of_call(m.name, n)
        s.recv = recv
        names: List[str] = list(tgs or [])
        if not names:
            names = self._fallback(f, n)
        recv_classes: List[ClassInfo] = []
        if recv is not None and recv[0] in ('inst', 'union'):
            for cn in self.ty.inst_names(recv):
                ci = self.prog.classes.get(cn)
                if ci is not None:
                    recv_classes.append(ci)
                if cn in USER_EXTENSIBLE:
                    s.boundary = True
        for full in names:
            lf = self._lib_func(full)
            if lf is not None:
                if lf not in s.targets:
                    s.targets.append(lf)
            elif full.startswith('zeroconf.'):
                # library name without a function body: class without own __init__, property, attribute
                cfull = full.rsplit('.', 1)[0]
                if cfull in self.prog.classes or full in self.prog.classes:
                    s.ext.append(full)
                else:
                    s.ext.append(full)
            else:
                s.ext.append(full)
        if isinstance(n.func, ast.Attribute) and recv_classes:
            for v in self._expand_virtual(recv_classes, n.func.attr):
                if v not in s.targets:
                    s.targets.append(v)
                    s.kind = 'virtual' if kind == 'direct' else kind
        if not s.targets and not s.ext:
            s.unresolved = True
            self.unresolved.append(s)
        return s

    def _fallback(self, f: FuncInfo, n: ast.Call) -> List[str]:
        """Own resolution where the oracle has no answer (run-time arms of
        `if TYPE_CHECKING`, super(), module aliases)."""
        m = f.module
        fn = n.func
        if isinstance(fn, ast.Name):
            nested = m.functions.get(f'{f.qual}.<locals>.{fn.id}')
            if nested:
                return [nested.full]
            r = self.prog.resolve_name(m, fn.id)
            if r:
                if r[0] == 'func':
                    return [r[1].full]
                if r[0] == 'class':
                    init = r[1].find_method('__init__')
                    return [init.full if init else r[1].full + '.__init__']
                if r[0] == 'ext':
                    return [r[1]]
                if r[0] == 'const' and isinstance(r[3], ast.Call):
                    v = r[3]
                    # NAME = lru_cache(...)(f)  /  NAME = partial(f, ...)
                    if isinstance(v.func, ast.Call) and call_name(v.func) == 'lru_cache' and v.args:
                        rr = self.prog.resolve_expr(r[1], v.args[0])
                        if rr and rr[0] == 'func':
                            return [rr[1].full]
                    if call_name(v) == 'partial' and v.args:
                        rr = self.prog.resolve_expr(r[1], v.args[0])
                        if rr and rr[0] == 'func':
                            return [rr[1].full]
                        return ['functools.partial:' + norm(v.args[0])]
            import builtins as _b

            if hasattr(_b, fn.id):
                return ['builtins.' + fn.id]
            return []
        if isinstance(fn, ast.Attribute):
            c = self._enclosing_class(f)
            if isinstance(fn.value, ast.Name) and fn.value.id == 'self' and c is not None:
                lf = c.find_method(fn.attr)
                if lf:
                    return [lf.full]
            if (
                isinstance(fn.value, ast.Call)
                and isinstance(fn.value.func, ast.Name)
                and fn.value.func.id == 'super'
                and c is not None
            ):
                for b in c.mro()[1:]:
                    if fn.attr in b.methods:
                        return [b.methods[fn.attr].full]
                return ['<external-base>.' + fn.attr]
            r = self.prog.resolve_expr(m, fn)
            if r:
                if r[0] == 'func':
                    return [r[1].full]
                if r[0] == 'ext':
                    return [r[1]]
                if r[0] == 'class':
                    init = r[1].find_method('__init__')
                    return [init.full if init else r[1].full + '.__init__']
            if isinstance(fn.value, ast.Name) and fn.value.id == 'log':
                return ['logging.Logger.' + fn.attr]
            # name-based class-hierarchy fallback: every library method of that name
            byname = [
                ci.methods[fn.attr].full for ci in self.prog.classes.values() if fn.attr in ci.methods
            ]
            if byname:
                self.byname_fallbacks.append((f.where(), n.lineno, norm(n.func)))
                return byname
        return []

    # ----------------------------------------------------------------- query
    def callees(self, f: FuncInfo, include_deferred: bool = False) -> List[FuncInfo]:
        out: List[FuncInfo] = []
        for s in self.sites.get(f.full, []):
            if s.kind == 'deferred' and not include_deferred:
                continue
            for t in s.targets:
                if t not in out:
                    out.append(t)
        if include_deferred:
            for d in self.deferred:
                if d.caller is f:
                    for t in d.targets:
                        if t not in out:
                            out.append(t)
        return out

    def closure(self, roots: List[FuncInfo], include_deferred: bool = False) -> List[FuncInfo]:
        seen: List[FuncInfo] = []
        todo = list(roots)
        while todo:
            f = todo.pop()
            if f in seen:
                continue
            seen.append(f)
            todo.extend(self.callees(f, include_deferred))
        return seen

    def callers_of(self, f: FuncInfo) -> List[CallSite]:
        return self.callers.get(f.full, [])

    def sites_in(self, f: FuncInfo) -> List[CallSite]:
        return self.sites.get(f.full, [])

    def sites_calling_ext(self, suffix: str) -> List[CallSite]:
        out = []
        for ss in self.sites.values():
            for s in ss:
                if any(e.endswith(suffix) for e in s.ext) or (s.unresolved and call_name(s.node) == suffix.rsplit('.', 1)[-1]):
                    out.append(s)
        return out

    def find_path(self, src: FuncInfo, dst: FuncInfo) -> Optional[List[str]]:
        prev: Dict[str, Tuple[Optional[str], int]] = {src.full: (None, 0)}
        todo = [src]
        while todo:
            f = todo.pop(0)
            if f is dst:
                out = []
                cur: Optional[str] = f.full
                while cur is not None:
                    p, ln = prev[cur]
                    out.append(cur if p is None else f'{cur} (called at line {ln})')
                    cur = p
                return list(reversed(out))
            for s in self.sites.get(f.full, []):
                for t in s.targets:
                    if t.full not in prev:
                        prev[t.full] = (f.full, s.line)
                        todo.append(t)
        return None

    def stats(self) -> Dict[str, Any]:
        return {
            'call_sites': self.n_sites,
            'resolved': self.n_sites - len(self.unresolved),
            'unresolved': len(self.unresolved),
            'deferred_refs': len(self.deferred),
            'resolved_by_name_only': len(self.byname_fallbacks),
        }

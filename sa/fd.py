"""FD -- finite-domain evaluator.

Evaluates the branch conditions of a function over declared *atoms*
(normalised sub-expressions given a finite domain) along every CFG path and
yields a decision table: assignment of atoms -> set of outcomes (effect labels
in order, returned value).  Boolean structure is interpreted, so equivalent
rewrites (De Morgan, flipped comparisons, early returns vs. else) give the same
table.  No solver: plain enumeration of a finite product."""
from __future__ import annotations

import ast
import itertools
from typing import Any, Callable, Dict, Iterable, List, Optional, Sequence, Set, Tuple

from . import AnalysisError
from .cf import CFG, Node
from .pm import Module, NotConst, Program, norm


class _Unknown:
    def __repr__(self) -> str:
        return 'UNKNOWN'

    def __bool__(self) -> bool:
        raise AnalysisError('truth value of UNKNOWN used')


UNKNOWN = _Unknown()


class Sym:
    """A symbolic token (enum member, sentinel); equal only to itself by name."""

    def __init__(self, name: str) -> None:
        self.name = name

    def __repr__(self) -> str:
        return f'Sym({self.name})'

    def __eq__(self, o: Any) -> bool:
        return isinstance(o, Sym) and o.name == self.name

    def __hash__(self) -> int:
        return hash(('Sym', self.name))


_PURE_BUILTINS: Dict[str, Any] = {'range': range, 'min': min, 'max': max, 'abs': abs, 'int': int, 'tuple': tuple, 'frozenset': frozenset, 'sorted': sorted, 'list': list, 'dict': dict, 'reversed': lambda x: list(reversed(list(x)))}


class Evaluator:
    def __init__(self, prog: Program, module: Module, atoms: Dict[str, Any], locals_: Optional[Dict[str, Any]] = None) -> None:
        self.prog = prog
        self.module = module
        self.atoms = atoms
        self.locals: Dict[str, Any] = dict(locals_ or {})
        self.undecided: List[str] = []

    def ev(self, e: ast.AST) -> Any:
        key = norm(e)
        if key in self.atoms:
            return self.atoms[key]
        # receiver-insensitive atoms: '.attr' for any `<x>.attr` load, '.meth()' for any `<x>.meth(...)` call
        if isinstance(e, ast.Attribute) and ('.' + e.attr) in self.atoms:
            return self.atoms['.' + e.attr]
        if isinstance(e, ast.Call) and isinstance(e.func, ast.Attribute) and ('.' + e.func.attr + '()') in self.atoms:
            return self.atoms['.' + e.func.attr + '()']
        if isinstance(e, ast.Call) and isinstance(e.func, ast.Name) and (e.func.id + '()') in self.atoms:
            return self.atoms[e.func.id + '()']
        # a scenario that fixes what a look-up returns (`.get()` -> an object / None) fixes the other spellings of the same
        # look-up too: `k in d` / `k not in d` (present iff the look-up is not None) and `d[k]` (the object), for a container
        # that is an attribute or a name (the scenarios of the rules only ever speak of one look-up per routine)
        if isinstance(e, ast.Compare) and len(e.ops) == 1 and isinstance(e.ops[0], (ast.In, ast.NotIn)) and isinstance(e.comparators[0], (ast.Attribute, ast.Name)):
            cont = norm(e.comparators[0])
            for k_ in (f'{cont}.get()', f'{cont}[{norm(e.left)}]', f'{cont}.get({norm(e.left)})', '.get()'):
                if k_ in self.atoms and not (isinstance(e.comparators[0], ast.Name) and e.comparators[0].id in self.locals):
                    present = self.atoms[k_] is not None
                    return present if isinstance(e.ops[0], ast.In) else not present
        if isinstance(e, ast.Subscript) and isinstance(getattr(e, 'ctx', None), ast.Load) and isinstance(e.value, (ast.Attribute,)) and not isinstance(e.slice, ast.Slice):
            cont = norm(e.value)
            for k_ in (f'{cont}.get()',):
                if k_ in self.atoms and self.atoms[k_] is not None:
                    return self.atoms[k_]
        if isinstance(e, ast.Constant):
            return e.value
        if isinstance(e, ast.Name):
            if e.id in self.locals:
                return self.locals[e.id]
            return self._module_value(e)
        if isinstance(e, ast.Attribute):
            return self._module_value(e)
        if isinstance(e, ast.BoolOp):
            vals = [self.ev(v) for v in e.values]
            if isinstance(e.op, ast.And):
                # left-to-right; a known-falsy operand decides
                res: Any = True
                for v in vals:
                    if v is UNKNOWN:
                        res = UNKNOWN
                        continue
                    if not self._truth(v):
                        return v if res is not UNKNOWN else False
                    if res is not UNKNOWN:
                        res = v
                return res
            res = False
            for v in vals:
                if v is UNKNOWN:
                    res = UNKNOWN
                    continue
                if self._truth(v):
                    return v if res is not UNKNOWN else True
                if res is not UNKNOWN:
                    res = v
            return res
        if isinstance(e, ast.UnaryOp):
            v = self.ev(e.operand)
            if v is UNKNOWN:
                return UNKNOWN
            if isinstance(e.op, ast.Not):
                return not self._truth(v)
            if isinstance(e.op, ast.USub):
                return -v
            return UNKNOWN
        if isinstance(e, ast.Compare):
            left = self.ev(e.left)
            result: Any = True
            for op, c in zip(e.ops, e.comparators):
                right = self.ev(c)
                if left is UNKNOWN or right is UNKNOWN:
                    return UNKNOWN
                r = self._cmp(op, left, right)
                if r is UNKNOWN:
                    return UNKNOWN
                if not r:
                    return False
                left = right
            return result
        if isinstance(e, ast.IfExp):
            t = self.ev(e.test)
            if t is UNKNOWN:
                a, b = self.ev(e.body), self.ev(e.orelse)
                if a is not UNKNOWN and b is not UNKNOWN and self._same(a, b):
                    return a
                return UNKNOWN
            return self.ev(e.body) if self._truth(t) else self.ev(e.orelse)
        if isinstance(e, ast.Call):
            fn = norm(e.func)
            if fn == 'bool' and len(e.args) == 1:
                v = self.ev(e.args[0])
                return UNKNOWN if v is UNKNOWN else self._truth(v)
            if fn == 'len' and len(e.args) == 1:
                v = self.ev(e.args[0])
                if v is not UNKNOWN and hasattr(v, '__len__'):
                    return len(v)
            if fn in ('cast',) and len(e.args) == 2:
                return self.ev(e.args[1])
            if fn in _PURE_BUILTINS and not e.keywords and isinstance(e.func, ast.Name) and fn not in self.locals:
                vals = [self.ev(a) for a in e.args]
                if all(v is not UNKNOWN and not isinstance(v, Sym) for v in vals):
                    try:
                        return _PURE_BUILTINS[fn](*vals)
                    except Exception:  # noqa: BLE001
                        return UNKNOWN
            if isinstance(e.func, ast.Attribute) and e.func.attr == 'get' and e.args and not e.keywords:
                d = self.ev(e.func.value)
                if isinstance(d, dict):
                    k = self.ev(e.args[0])
                    dflt = self.ev(e.args[1]) if len(e.args) > 1 else None
                    if k is not UNKNOWN and dflt is not UNKNOWN:
                        try:
                            return d.get(k, dflt)
                        except TypeError:
                            return UNKNOWN
            return UNKNOWN
        if isinstance(e, ast.Subscript):
            d = self.ev(e.value)
            k = self.ev(e.slice)
            if d is not UNKNOWN and k is not UNKNOWN and isinstance(d, (dict, tuple, list)):
                try:
                    return d[k]
                except Exception:  # noqa: BLE001
                    return UNKNOWN
            return UNKNOWN
        if isinstance(e, ast.Dict) and all(k is not None for k in e.keys):
            ks = [self.ev(k) for k in e.keys]  # type: ignore[arg-type]
            vs = [self.ev(v) for v in e.values]
            if any(x is UNKNOWN for x in ks + vs):
                return UNKNOWN
            try:
                return dict(zip(ks, vs))
            except TypeError:
                return UNKNOWN
        if isinstance(e, (ast.Tuple, ast.List, ast.Set)):
            vals = [self.ev(x) for x in e.elts]
            if any(v is UNKNOWN for v in vals):
                return UNKNOWN
            return tuple(vals) if isinstance(e, ast.Tuple) else (list(vals) if isinstance(e, ast.List) else frozenset(vals))
        if isinstance(e, ast.BinOp):
            a, b = self.ev(e.left), self.ev(e.right)
            if a is UNKNOWN or b is UNKNOWN:
                return UNKNOWN
            try:
                return self.prog.fold(self.module, ast.BinOp(left=ast.Constant(a), op=e.op, right=ast.Constant(b)))
            except Exception:  # noqa: BLE001
                return UNKNOWN
        if isinstance(e, ast.NamedExpr):
            v = self.ev(e.value)
            self.locals[e.target.id] = v
            return v
        if isinstance(e, ast.Await):
            return self.ev(e.value)  # the value of the awaited call (an atom stands for the result, not for the coroutine)
        if isinstance(e, (ast.SetComp, ast.ListComp, ast.GeneratorExp)) and len(e.generators) == 1 and isinstance(e.generators[0].target, ast.Name):
            # a comprehension over a concrete sequence (an atom gave the iterable): filter and map element by element
            g = e.generators[0]
            seq = self.ev(g.iter)
            if seq is UNKNOWN or not isinstance(seq, (list, tuple, frozenset, set)):
                return UNKNOWN
            out_: List[Any] = []
            saved = dict(self.locals)
            try:
                for item in seq:
                    self.locals[g.target.id] = item
                    keep = True
                    for cond in g.ifs:
                        cv = self.ev(cond)
                        if cv is UNKNOWN:
                            return UNKNOWN
                        if not self._truth(cv):
                            keep = False
                            break
                    if keep:
                        v = self.ev(e.elt)
                        if v is UNKNOWN:
                            return UNKNOWN
                        out_.append(v)
            finally:
                self.locals = saved
            try:
                return frozenset(out_) if isinstance(e, ast.SetComp) else list(out_)
            except TypeError:
                return UNKNOWN
        return UNKNOWN

    def _module_value(self, e: ast.AST) -> Any:
        r = self.prog.resolve_expr(self.module, e)
        if r is not None:
            if r[0] == 'classattr':
                return Sym(f'{r[1].name}.{r[2]}')
            if r[0] == 'const':
                try:
                    return self.prog.fold(r[1], r[3])
                except (NotConst, RecursionError):
                    rr = self.prog.resolve_expr(r[1], r[3]) if isinstance(r[3], (ast.Name, ast.Attribute)) else None
                    if rr and rr[0] == 'classattr':
                        return Sym(f'{rr[1].name}.{rr[2]}')
                    return UNKNOWN
            if r[0] in ('class', 'func'):
                return Sym(r[1].full)
        if isinstance(e, ast.Name) and e.id in ('True', 'False', 'None'):
            return {'True': True, 'False': False, 'None': None}[e.id]
        return UNKNOWN

    @staticmethod
    def _truth(v: Any) -> bool:
        if isinstance(v, Sym):
            return True
        return bool(v)

    @staticmethod
    def _same(a: Any, b: Any) -> bool:
        return type(a) is type(b) and a == b

    def _cmp(self, op: ast.cmpop, a: Any, b: Any) -> Any:
        try:
            if isinstance(op, ast.Is):
                return a is b if not isinstance(a, Sym) and not isinstance(b, Sym) and (a is None or b is None or isinstance(a, bool) or isinstance(b, bool)) else a == b
            if isinstance(op, ast.IsNot):
                r = self._cmp(ast.Is(), a, b)
                return UNKNOWN if r is UNKNOWN else not r
            if isinstance(op, ast.Eq):
                return a == b
            if isinstance(op, ast.NotEq):
                return a != b
            if isinstance(op, ast.In):
                return a in b
            if isinstance(op, ast.NotIn):
                return a not in b
            if isinstance(op, ast.Lt):
                return a < b
            if isinstance(op, ast.LtE):
                return a <= b
            if isinstance(op, ast.Gt):
                return a > b
            if isinstance(op, ast.GtE):
                return a >= b
        except TypeError:
            return UNKNOWN
        return UNKNOWN

    # --------------------------------------------------- statement transfer
    def assign(self, st: ast.AST) -> None:
        """Track simple local bindings along a path."""
        if isinstance(st, ast.Assign):
            v = self.ev(st.value)
            for t in st.targets:
                self._bind(t, v)
        elif isinstance(st, ast.AnnAssign) and st.value is not None:
            self._bind(st.target, self.ev(st.value))
        elif isinstance(st, ast.AugAssign):
            if isinstance(st.target, ast.Name):
                cur = self.locals.get(st.target.id, UNKNOWN)
                rhs = self.ev(st.value)
                if cur is UNKNOWN or rhs is UNKNOWN:
                    self.locals[st.target.id] = UNKNOWN
                else:
                    try:
                        self.locals[st.target.id] = self.prog.fold(
                            self.module, ast.BinOp(left=ast.Constant(cur), op=st.op, right=ast.Constant(rhs))
                        )
                    except Exception:  # noqa: BLE001
                        self.locals[st.target.id] = UNKNOWN

    def _bind(self, t: ast.AST, v: Any) -> None:
        if isinstance(t, ast.Name):
            self.locals[t.id] = v
        elif isinstance(t, (ast.Tuple, ast.List)):
            if v is not UNKNOWN and isinstance(v, (tuple, list)) and len(v) == len(t.elts):
                for x, y in zip(t.elts, v):
                    self._bind(x, y)
            else:
                for x in t.elts:
                    self._bind(x, UNKNOWN)


EffectFn = Callable[[Node, Evaluator], List[Any]]


def _hashable(v: Any) -> Any:
    try:
        hash(v)
        return v
    except TypeError:
        return repr(v)


def run_paths(
    prog: Program,
    module: Module,
    cfg: CFG,
    atoms: Dict[str, Any],
    effect_fn: EffectFn,
    start: Optional[Node] = None,
    stop: Optional[Callable[[Node], bool]] = None,
    init_locals: Optional[Dict[str, Any]] = None,
    loop_bound: int = 1,
    for_iter: Optional[Callable[[Node, Evaluator], Any]] = None,
    limit: int = 200000,
    final_fn: Optional[Callable[[Evaluator], List[Any]]] = None,
) -> Tuple[Set[Tuple[Any, ...]], List[str]]:
    """Outcomes (tuple of effect labels + ('ret', value) / ('raise', text)) of all
    paths that are feasible under `atoms`; plus tests left undecided.  Depth-first
    over the CFG with on-the-fly evaluation: a decided test prunes the other arm."""
    outcomes: Set[Tuple[Any, ...]] = set()
    undecided: List[str] = []
    start = start or cfg.entry
    # state: node, locals, effects, loop-entry counts, first?
    stack: List[Tuple[Node, Dict[str, Any], Tuple[Any, ...], Dict[int, int], bool]] = [
        (start, dict(init_locals or {}), (), {}, True)
    ]
    steps = 0
    while stack:
        node, loc, eff, used, first = stack.pop()
        steps += 1
        if steps > limit:
            raise AnalysisError(f'path explosion in {getattr(cfg.fn, "name", "?")} (> {limit} steps)')
        if node is cfg.exit or node is cfg.raise_exit or (stop is not None and not first and stop(node)):
            if final_fn is not None:
                # what the locals hold where the path ends
                eff = eff + tuple(final_fn(Evaluator(prog, module, atoms, loc)))
            outcomes.add(eff)
            continue
        evl = Evaluator(prog, module, atoms, loc)
        allowed: Optional[Any] = None  # restrict outgoing labels
        new_eff = list(eff)
        if node.kind in ('test', 'loop_test'):
            v = evl.ev(node.ast)  # type: ignore[arg-type]
            new_eff.extend(effect_fn(node, evl))
            if v is UNKNOWN:
                t = norm(node.ast)  # type: ignore[arg-type]
                if t not in undecided:
                    undecided.append(t)
            else:
                allowed = evl._truth(v)
                if node.kind == 'loop_test' and allowed and used.get(node.id, 0) >= loop_bound:
                    allowed = False  # iteration bound reached: leave the loop
        elif node.kind == 'for':
            new_eff.extend(effect_fn(node, evl))
            if for_iter is not None:
                r = for_iter(node, evl)
                if r is not None:
                    allowed = 'iter' if r and used.get(node.id, 0) < loop_bound else 'done'
        elif node.kind == 'stmt':
            new_eff.extend(effect_fn(node, evl))
            evl.assign(node.ast)  # type: ignore[arg-type]
        elif node.kind == 'return':
            new_eff.extend(effect_fn(node, evl))
            rv = node.ast.value  # type: ignore[attr-defined]
            val = evl.ev(rv) if rv is not None else None
            new_eff.append(('ret', 'UNKNOWN' if val is UNKNOWN else _hashable(val)))
        elif node.kind == 'raise':
            new_eff.extend(effect_fn(node, evl))
            ex = node.ast.exc  # type: ignore[attr-defined]
            new_eff.append(('raise', norm(ex.func) if isinstance(ex, ast.Call) else (norm(ex) if ex is not None else '')))
            outcomes.add(tuple(new_eff))
            continue
        else:
            new_eff.extend(effect_fn(node, evl))
        te = tuple(new_eff)
        if node.kind == 'loop_test' and allowed is False and not any((lab[1] if isinstance(lab, tuple) and lab and lab[0] == 'back' else lab) is False for _s, lab in node.succ):
            # `while True:` at its iteration bound: the loop has no exit edge here; the path is cut where it stands
            outcomes.add(te + (tuple(final_fn(evl)) if final_fn is not None else ()))
            continue
        for s, lab in reversed(node.succ):
            if lab == 'exc':
                continue
            is_back = isinstance(lab, tuple) and lab and lab[0] == 'back'
            elabel = lab[1] if is_back else lab
            if allowed is not None and elabel is not None:
                if node.kind in ('test', 'loop_test') and bool(elabel) != allowed:
                    continue
                if node.kind == 'for' and elabel != allowed:
                    continue
            u = used
            enters = (node.kind == 'for' and elabel == 'iter') or (node.kind == 'loop_test' and elabel is True)
            l2 = evl.locals
            if enters:
                if used.get(node.id, 0) >= loop_bound:
                    continue
                u = dict(used)
                u[node.id] = used.get(node.id, 0) + 1
                if node.kind == 'for':
                    e2 = Evaluator(prog, module, atoms, evl.locals)
                    it = node.ast.iter  # type: ignore[attr-defined]
                    # `for i in range(n)`: the loop variable is the number of trips made so far
                    counted = isinstance(it, ast.Call) and norm(it.func) == 'range' and len(it.args) == 1 and not it.keywords and isinstance(node.ast.target, ast.Name)  # type: ignore[attr-defined]
                    e2._bind(node.ast.target, used.get(node.id, 0) if counted else UNKNOWN)  # type: ignore[attr-defined]
                    l2 = e2.locals
            stack.append((s, dict(l2), te, u, False))
    return outcomes, undecided


def table(
    prog: Program,
    module: Module,
    cfg: CFG,
    domains: Dict[str, Sequence[Any]],
    effect_fn: EffectFn,
    constraint: Optional[Callable[[Dict[str, Any]], bool]] = None,
    **kw: Any,
) -> Tuple[Dict[Tuple[Any, ...], Set[Tuple[Any, ...]]], List[str]]:
    names = list(domains)
    out: Dict[Tuple[Any, ...], Set[Tuple[Any, ...]]] = {}
    und: List[str] = []
    for combo in itertools.product(*[domains[n] for n in names]):
        asg = dict(zip(names, combo))
        if constraint is not None and not constraint(asg):
            continue
        oc, u = run_paths(prog, module, cfg, asg, effect_fn, **kw)
        out[combo] = oc
        for x in u:
            if x not in und:
                und.append(x)
    return out, und


def require_atoms(fn_where: str, node: ast.AST, atoms: Iterable[str]) -> None:
    """exit 2 if an atom's sub-expression no longer occurs in the function."""
    texts = {norm(n) for n in ast.walk(node) if isinstance(n, ast.expr)}
    for a in atoms:
        if a not in texts:
            raise AnalysisError(f'anchor vanished: atom `{a}` no longer occurs in {fn_where}')


def evaluated_calls(e: ast.AST, evl: Evaluator) -> List[ast.Call]:
    """Calls of expression `e` that are actually evaluated, respecting the
    short-circuit of and/or and conditional expressions under `evl`."""
    out: List[ast.Call] = []
    if isinstance(e, ast.BoolOp):
        for v in e.values:
            out.extend(evaluated_calls(v, evl))
            val = evl.ev(v)
            if val is UNKNOWN:
                continue
            t = evl._truth(val)
            if (isinstance(e.op, ast.And) and not t) or (isinstance(e.op, ast.Or) and t):
                break
        return out
    if isinstance(e, ast.IfExp):
        out.extend(evaluated_calls(e.test, evl))
        val = evl.ev(e.test)
        if val is UNKNOWN or evl._truth(val):
            out.extend(evaluated_calls(e.body, evl))
        if val is UNKNOWN or not evl._truth(val):
            out.extend(evaluated_calls(e.orelse, evl))
        return out
    if isinstance(e, (ast.Lambda, ast.FunctionDef, ast.AsyncFunctionDef, ast.ClassDef)):
        return out
    for c in ast.iter_child_nodes(e):
        out.extend(evaluated_calls(c, evl))
    if isinstance(e, ast.Call):
        out.append(e)
    return out


def node_calls(node: Node, evl: Evaluator) -> List[ast.Call]:
    out: List[ast.Call] = []
    for x in node.exprs():
        out.extend(evaluated_calls(x, evl))
    return out

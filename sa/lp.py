"""Transparent locals (a normal form, applied after helper inlining and the spelling-only canonical pass).

Naming an expression -- `name = info.key`, `flags = _FLAGS_QR_QUERY | x`, `snapshot = list(self.listeners)` followed by the one
statement that uses it -- is the second most common behaviour-preserving refactoring after extracting a helper, and a rule that
reads the shape of a statement loses sight of what was named.  So a local is replaced by the expression it names when that is
certain to be the same value at the use:

  * STABLE value, any number of uses: the local is bound exactly once in the routine, every use lies after the binding in the
    same block (or a block nested in it), and the value is built from constants, module-level names, parameters and locals
    that are never rebound, attributes of those whose attribute name is never stored to in the module outside constructors,
    comparisons / boolean / arithmetic / conditional operators over those, `cast(...)` and `isinstance(...)`;
  * ANY value, one use: the one use is in the statement that immediately follows the binding and is the first thing that
    statement evaluates (nothing with an effect can come between the binding and the use).

  * READ-ONLY value (names, attribute and subscript loads, operators -- no call), any number of uses, all of them in the
    statement that immediately follows the binding, with nothing evaluated before the last use that could change what the
    value reads (a store through an attribute or subscript, a call on or with one of the objects it reads, an await).

Everything else stays a local: a value read from state that the module mutates (`start = self.size`) is a snapshot, and the rules
that depend on snapshots need to see it.  Locals of the tree the rules were written against (BASELINE below) also stay: rules
find several of them by role through their binding statement.  The expression substituted keeps its own source positions (the
type oracle is asked by position).
"""
from __future__ import annotations

import ast
import copy
from typing import Dict, List, Optional, Set, Tuple

_PURE_CALLS = {'cast', 'isinstance'}


def stored_attrs(tree: ast.Module) -> Set[str]:
    """Attribute names stored to (or deleted, or aug-assigned) anywhere in the module outside `__init__` / `__new__`."""
    out: Set[str] = set()

    def scan(node: ast.AST, skip: bool) -> None:
        for c in ast.iter_child_nodes(node):
            if isinstance(c, (ast.FunctionDef, ast.AsyncFunctionDef)):
                scan(c, c.name in ('__init__', '__new__'))
                continue
            if isinstance(c, ast.Attribute) and isinstance(c.ctx, (ast.Store, ast.Del)) and not skip:
                out.add(c.attr)
            scan(c, skip)

    scan(tree, False)
    return out


def routine_effects(trees: List[ast.Module]) -> Dict[str, Set[str]]:
    """routine NAME -> attribute names that a routine of that name (in any class or module of the program) may store to,
    directly or through the routines it calls (resolved by name, so an over-approximation; names the program does not define
    have no entry: library calls do not rebind attributes of the program's objects)."""
    direct: Dict[str, Set[str]] = {}
    calls: Dict[str, Set[str]] = {}
    for tree in trees:
        for fn in ast.walk(tree):
            if isinstance(fn, (ast.FunctionDef, ast.AsyncFunctionDef)):
                d = direct.setdefault(fn.name, set())
                c = calls.setdefault(fn.name, set())
                for x in ast.walk(fn):
                    if isinstance(x, ast.Attribute) and isinstance(x.ctx, (ast.Store, ast.Del)):
                        d.add(x.attr)
                    elif isinstance(x, ast.Call):
                        if isinstance(x.func, ast.Attribute):
                            c.add(x.func.attr)
                        elif isinstance(x.func, ast.Name):
                            c.add(x.func.id)
                    elif isinstance(x, ast.Attribute) and isinstance(x.ctx, ast.Load):
                        c.add(x.attr)  # a property read runs its getter
    # a class name called constructs: __init__ runs
    changed = True
    while changed:
        changed = False
        for n, cs in calls.items():
            for m in cs:
                extra = direct.get(m, set()) - direct[n]
                if extra:
                    direct[n] |= extra
                    changed = True
    return direct


class _Fn:
    effects: Dict[str, Set[str]] = {}

    def __init__(self, fn: ast.AST, unstable_attrs: Set[str], module_names: Set[str], keep: Set[str]) -> None:
        self.fn = fn
        self.unstable = unstable_attrs
        self.module_names = module_names
        self.keep = keep
        self.count = 0
        self.names: List[str] = []

    # ---- facts about the routine
    def _facts(self) -> None:
        fn = self.fn
        a = fn.args  # type: ignore[attr-defined]
        self.params = {x.arg for x in a.args + a.kwonlyargs + a.posonlyargs} | ({a.vararg.arg} if a.vararg else set()) | ({a.kwarg.arg} if a.kwarg else set())
        self.stores: Dict[str, int] = {}
        self.nested_reads: Set[str] = set()
        self.declared: Set[str] = set()

        def scan(node: ast.AST, nested: bool) -> None:
            for c in ast.iter_child_nodes(node):
                if isinstance(c, (ast.Global, ast.Nonlocal)):
                    self.declared.update(c.names)
                if isinstance(c, ast.Name):
                    if isinstance(c.ctx, (ast.Store, ast.Del)):
                        self.stores[c.id] = self.stores.get(c.id, 0) + 1
                    elif nested:
                        self.nested_reads.add(c.id)
                if isinstance(c, ast.ExceptHandler) and c.name:
                    self.stores[c.name] = self.stores.get(c.name, 0) + 1
                if isinstance(c, (ast.Import, ast.ImportFrom)):
                    for al in c.names:
                        nm = (al.asname or al.name).split('.')[0]
                        self.stores[nm] = self.stores.get(nm, 0) + 1
                if isinstance(c, (ast.FunctionDef, ast.AsyncFunctionDef, ast.ClassDef)):
                    self.stores[c.name] = self.stores.get(c.name, 0) + 1
                # a comprehension runs where it stands (a generator expression may not: it counts as deferred)
                scan(c, nested or isinstance(c, (ast.FunctionDef, ast.AsyncFunctionDef, ast.Lambda, ast.ClassDef, ast.GeneratorExp)))

        scan(fn, False)
        # names / attribute names whose object the routine may change in place: the receiver of a method call, the base of a
        # subscript or attribute that is stored to or deleted, the target of an augmented assignment
        self.touched: Set[str] = set()

        def leaf(x: ast.AST) -> Optional[str]:
            return x.id if isinstance(x, ast.Name) else x.attr if isinstance(x, ast.Attribute) else None

        for c in ast.walk(fn):
            if isinstance(c, ast.Call) and isinstance(c.func, ast.Attribute):
                k = leaf(c.func.value)
                if k:
                    self.touched.add(k)
            if isinstance(c, (ast.Subscript, ast.Attribute)) and isinstance(c.ctx, (ast.Store, ast.Del)):
                k = leaf(c.value)
                if k:
                    self.touched.add(k)
            if isinstance(c, ast.AugAssign):
                k = leaf(c.target)
                if k:
                    self.touched.add(k)

    def _nothing_rebinds(self, e: ast.Attribute) -> bool:
        """`root.a` (one level) where the program does store to an attribute `a` somewhere, but nothing this routine does can:
        it has no store to an attribute of that name, and no routine it calls on `root` or hands `root` to may store to one
        (routine_effects, by name)."""
        if not isinstance(e.value, ast.Name):
            return False
        root = e.value.id
        for c in ast.walk(self.fn):
            if isinstance(c, ast.Attribute) and c.attr == e.attr and isinstance(c.ctx, (ast.Store, ast.Del)):
                return False
            if isinstance(c, ast.Call):
                callee = c.func.attr if isinstance(c.func, ast.Attribute) else c.func.id if isinstance(c.func, ast.Name) else None
                on_root = isinstance(c.func, ast.Attribute) and isinstance(c.func.value, ast.Name) and c.func.value.id == root
                gets_root = any(isinstance(a, ast.Name) and a.id == root for a in list(c.args) + [k.value for k in c.keywords])
                if on_root or gets_root:
                    # a routine that is handed `root`: by what routines of that name may store to (an unknown callee may do
                    # anything when there is no table)
                    if callee is None or not self.effects or e.attr in self.effects.get(callee, set()):
                        return False
            if isinstance(c, (ast.Await, ast.Yield, ast.YieldFrom)):
                return False
        return True

    def _fixed_name(self, name: str) -> bool:
        if name in self.declared:
            return False
        if name in self.params:
            return self.stores.get(name, 0) == 0
        n = self.stores.get(name, 0)
        return n == 1 or (n == 0)  # bound once here, or a module-level / builtin name

    def stable(self, e: ast.AST, operand: bool = False) -> bool:
        """The expression denotes the same value wherever it is evaluated after the binding.  A bare name or attribute chain
        denotes the same OBJECT (an alias); as the operand of an operator its CONTENTS matter too, so there it must also be
        something the routine never changes in place."""
        if isinstance(e, ast.Constant):
            return True
        if isinstance(e, ast.Name):
            return isinstance(e.ctx, ast.Load) and self._fixed_name(e.id) and not (operand and e.id in self.touched)
        if isinstance(e, ast.Attribute):
            if not isinstance(e.ctx, ast.Load) or (operand and e.attr in self.touched) or not self.stable(e.value):
                return False
            return e.attr not in self.unstable or self._nothing_rebinds(e)
        if isinstance(e, ast.BoolOp):
            return all(self.stable(v, True) for v in e.values)
        if isinstance(e, ast.BinOp):
            return self.stable(e.left, True) and self.stable(e.right, True)
        if isinstance(e, ast.UnaryOp):
            return self.stable(e.operand, True)
        if isinstance(e, ast.Compare):
            # membership reads the contents of a container, which is state
            return not any(isinstance(o, (ast.In, ast.NotIn)) for o in e.ops) and self.stable(e.left, True) and all(self.stable(c, True) for c in e.comparators)
        if isinstance(e, ast.IfExp):
            return self.stable(e.test, True) and self.stable(e.body, operand) and self.stable(e.orelse, operand)
        if isinstance(e, ast.Tuple):
            return isinstance(e.ctx, ast.Load) and all(self.stable(x, operand) for x in e.elts)
        if isinstance(e, ast.Call):
            if not (isinstance(e.func, ast.Name) and e.func.id in _PURE_CALLS and not e.keywords):
                return False
            if e.func.id == 'cast':
                return len(e.args) == 2 and self.stable(e.args[1], operand)
            return all(self.stable(x, True) for x in e.args)
        return False

    # ---- the two forms
    @staticmethod
    def _first_evaluated(st: ast.stmt, name: str) -> bool:
        """`name` is read by `st` before anything with an effect is evaluated (approximate evaluation order: the statement's
        first-evaluated expression, walked left to right; a call / await / yield met before the name is an effect)."""
        if isinstance(st, (ast.Assign, ast.AnnAssign, ast.AugAssign, ast.Return, ast.Expr)):
            root = st.value
        elif isinstance(st, (ast.If, ast.While)):
            root = st.test
        elif isinstance(st, (ast.For, ast.AsyncFor)):
            root = st.iter
        else:
            return False
        if root is None:
            return False
        if isinstance(st, ast.AugAssign):
            return False
        found = [False]
        blocked = [False]

        def walk(n: ast.AST) -> None:
            if found[0] or blocked[0]:
                return
            if isinstance(n, ast.Name) and n.id == name:
                found[0] = True
                return
            if isinstance(n, (ast.Lambda, ast.ListComp, ast.SetComp, ast.DictComp, ast.GeneratorExp)):
                # the first iterable of a comprehension is evaluated at once; everything else later
                if not isinstance(n, ast.Lambda):
                    walk(n.generators[0].iter)
                if not found[0]:
                    blocked[0] = True
                return
            if isinstance(n, (ast.BoolOp, ast.IfExp)):
                # only the first operand / the test is evaluated unconditionally
                first = n.values[0] if isinstance(n, ast.BoolOp) else n.test
                walk(first)
                if not found[0]:
                    blocked[0] = True
                return
            for c in ast.iter_child_nodes(n):
                walk(c)
                if found[0] or blocked[0]:
                    return
            if isinstance(n, (ast.Call, ast.Await, ast.Yield, ast.YieldFrom, ast.NamedExpr)):
                blocked[0] = True

        walk(root)
        return found[0]

    # ---- third form: a read-only value, all of whose uses lie in the statement that follows, with nothing in between that
    # could change what it reads
    def readonly(self, e: ast.AST) -> bool:
        """Built from fixed names, attribute and subscript loads, constants and operators (no call): evaluating it has no
        effect, and its value changes only if something stores to / calls into the objects it reads."""
        if isinstance(e, ast.Constant):
            return True
        if isinstance(e, ast.Name):
            return isinstance(e.ctx, ast.Load) and self._fixed_name(e.id)
        if isinstance(e, ast.Attribute):
            return isinstance(e.ctx, ast.Load) and self.readonly(e.value)
        if isinstance(e, ast.Subscript):
            return isinstance(e.ctx, ast.Load) and self.readonly(e.value) and not isinstance(e.slice, ast.Slice) and self.readonly(e.slice)
        if isinstance(e, ast.BinOp):
            return self.readonly(e.left) and self.readonly(e.right)
        if isinstance(e, ast.UnaryOp):
            return self.readonly(e.operand)
        if isinstance(e, ast.BoolOp):
            return all(self.readonly(v) for v in e.values)
        if isinstance(e, ast.Compare):
            return self.readonly(e.left) and all(self.readonly(c) for c in e.comparators)
        return False

    def _window_ok(self, st: ast.stmt, name: str, roots: Set[str], n_uses: int) -> bool:
        """All `n_uses` reads of `name` in `st` come, in evaluation order, before anything that could change what the value
        reads: a store / delete through an attribute or subscript, a call on one of its roots or one that is handed a root,
        an await / yield."""
        seen = [0]
        bad = [False]

        def ev(n: ast.AST) -> None:
            if bad[0] or seen[0] >= n_uses:
                return
            if isinstance(n, ast.Name):
                if n.id == name and isinstance(n.ctx, ast.Load):
                    seen[0] += 1
                return
            if isinstance(n, (ast.FunctionDef, ast.AsyncFunctionDef, ast.Lambda, ast.ClassDef, ast.GeneratorExp)):
                bad[0] = True
                return
            if isinstance(n, (ast.Assign, ast.AnnAssign, ast.AugAssign)):
                if n.value is not None:
                    ev(n.value)
                tg = n.targets if isinstance(n, ast.Assign) else [n.target]
                for t in tg:
                    if seen[0] < n_uses and not isinstance(t, ast.Name):
                        bad[0] = True
                return
            if isinstance(n, ast.Delete):
                bad[0] = True
                return
            if isinstance(n, (ast.Await, ast.Yield, ast.YieldFrom, ast.With, ast.AsyncWith, ast.Try, ast.While, ast.For, ast.AsyncFor)):
                bad[0] = True
                return
            if isinstance(n, ast.Call):
                ev(n.func)
                for a in n.args:
                    ev(a)
                for k in n.keywords:
                    ev(k.value)
                if seen[0] < n_uses:
                    recv = n.func.value if isinstance(n.func, ast.Attribute) else None
                    if (isinstance(recv, ast.Name) and recv.id in roots) or any(isinstance(a, ast.Name) and a.id in roots for a in list(n.args) + [k.value for k in n.keywords]):
                        bad[0] = True
                return
            if isinstance(n, ast.If):
                ev(n.test)
                # the arms are alternatives: each is judged from the same count
                base = seen[0]
                tot = 0
                for arm in (n.body, n.orelse):
                    seen[0] = base
                    for b in arm:
                        ev(b)
                    tot = max(tot, seen[0])
                # every use must have been reached without an effect on SOME arm order; conservatively require the uses of
                # both arms together to be all the uses that remain
                uses_body = sum(1 for b in n.body for x in ast.walk(b) if isinstance(x, ast.Name) and x.id == name and isinstance(x.ctx, ast.Load))
                uses_else = sum(1 for b in n.orelse for x in ast.walk(b) if isinstance(x, ast.Name) and x.id == name and isinstance(x.ctx, ast.Load))
                seen[0] = base + uses_body + uses_else if not bad[0] else seen[0]
                return
            for c in ast.iter_child_nodes(n):
                ev(c)

        ev(st)
        return not bad[0] and seen[0] >= n_uses

    def _reads(self, nodes: List[ast.stmt], name: str) -> int:
        return sum(1 for st in nodes for x in ast.walk(st) if isinstance(x, ast.Name) and x.id == name and isinstance(x.ctx, ast.Load))

    def _total_reads(self, name: str) -> int:
        return sum(1 for x in ast.walk(self.fn) if isinstance(x, ast.Name) and x.id == name and isinstance(x.ctx, ast.Load))

    def _block(self, body: List[ast.stmt]) -> Tuple[List[ast.stmt], bool]:
        changed = False
        i = 0
        body = list(body)
        while i < len(body):
            st = body[i]
            tgt: Optional[str] = None
            val: Optional[ast.expr] = None
            if isinstance(st, ast.Assign) and len(st.targets) == 1 and isinstance(st.targets[0], ast.Name):
                tgt, val = st.targets[0].id, st.value
            elif isinstance(st, ast.AnnAssign) and isinstance(st.target, ast.Name) and st.value is not None:
                tgt, val = st.target.id, st.value
            if tgt is not None and val is not None and tgt not in self.keep and tgt not in self.params and tgt not in self.declared and self.stores.get(tgt, 0) == 1 and tgt not in self.nested_reads:
                rest = body[i + 1:]
                inside = self._reads(rest, tgt)
                total = self._total_reads(tgt)
                ok = False
                if inside == total and total >= 1:
                    if self.stable(val):
                        ok = True
                    elif total == 1 and rest and self._reads(rest[:1], tgt) == 1 and self._first_evaluated(rest[0], tgt):
                        ok = True
                    elif rest and self._reads(rest[:1], tgt) == total and self.readonly(val):
                        roots = {x.id for x in ast.walk(val) if isinstance(x, ast.Name)}
                        ok = self._window_ok(rest[0], tgt, roots, total)
                if ok:
                    sub = _Replace(tgt, val)
                    body[i + 1:] = [sub.visit(x) for x in rest]
                    del body[i]
                    self.count += 1
                    self.names.append(tgt)
                    changed = True
                    continue
            i += 1
        for st in body:
            for fld in ('body', 'orelse', 'finalbody'):
                sub_ = getattr(st, fld, None)
                if isinstance(sub_, list) and sub_ and isinstance(sub_[0], ast.stmt) and not isinstance(st, (ast.FunctionDef, ast.AsyncFunctionDef, ast.ClassDef)):
                    nb, ch = self._block(sub_)
                    setattr(st, fld, nb or [ast.copy_location(ast.Pass(), st)])
                    changed = changed or ch
            for hd in getattr(st, 'handlers', []) or []:
                nb, ch = self._block(hd.body)
                hd.body = nb or [ast.copy_location(ast.Pass(), hd)]
                changed = changed or ch
        return body, changed

    def run(self) -> None:
        for _ in range(6):
            self._facts()
            nb, ch = self._block(self.fn.body)  # type: ignore[attr-defined]
            self.fn.body = nb or [ast.copy_location(ast.Pass(), self.fn)]  # type: ignore[attr-defined]
            if not ch:
                break


class _Replace(ast.NodeTransformer):
    def __init__(self, name: str, value: ast.expr) -> None:
        self.name = name
        self.value = value

    def visit_Name(self, n: ast.Name) -> ast.AST:
        if n.id == self.name and isinstance(n.ctx, ast.Load):
            new = copy.deepcopy(self.value)
            if not isinstance(new, ast.Call):
                # the value as a whole sits where the local was read (there the oracle knows the local's narrowed type); its
                # parts keep their own positions
                ast.copy_location(new, n)
            return new
        return n


def propagate_locals(tree: ast.Module, keep: Dict[str, Set[str]], unstable_attrs: Optional[Set[str]] = None, effects: Optional[Dict[str, Set[str]]] = None) -> Tuple[int, List[str]]:
    """Apply the normal form to every routine of the module.  `keep` maps a routine's qualified name to the locals that stay;
    `unstable_attrs` are the attribute names stored to anywhere in the program (the module's own when not given)."""
    unstable = stored_attrs(tree) if unstable_attrs is None else unstable_attrs
    _Fn.effects = effects or {}
    module_names = {t.id for st in tree.body if isinstance(st, ast.Assign) for t in st.targets if isinstance(t, ast.Name)}
    count = 0
    names: List[str] = []

    def visit(body: List[ast.stmt], prefix: str) -> None:
        nonlocal count
        for st in body:
            if isinstance(st, ast.ClassDef):
                visit(st.body, prefix + st.name + '.')
            elif isinstance(st, (ast.FunctionDef, ast.AsyncFunctionDef)):
                q = prefix + st.name
                f = _Fn(st, unstable, module_names, keep.get(q, set()))
                f.run()
                count += f.count
                names.extend(f'{q}:{n}' for n in f.names)

    visit(tree.body, '')
    return count, sorted(set(names))


def baseline_keep(rel: str) -> Dict[str, Set[str]]:
    return {}


# ---------------------------------------------------------------------------------------------------------------------------
# loops over a literal tuple
MAX_UNROLL = 4


def unroll_literal_loops(tree: ast.Module) -> int:
    """`for x in (A, B): BODY` over a literal tuple / list of at most MAX_UNROLL names, attributes or constants (or
    `for x, y in ((A, 1), (B, 2))` over rows of those) is the same as
    BODY[x := A]; BODY[x := B] when BODY neither rebinds `x` nor leaves the loop early (`break` / `continue` of this loop), the
    loop has no `else`, and `x` is read nowhere else in the routine.  Table-driven loops and repeated statements are two
    spellings of the same thing; rules see the repeated statements."""
    count = 0
    # module-level names bound once to a literal tuple / list of simple elements (`_HOST_RECORD_TYPES = (_TYPE_A, _TYPE_AAAA)`):
    # a loop over such a name is a loop over the literal
    simple_ = (ast.Name, ast.Attribute, ast.Constant)
    mod_binds: Dict[str, List[ast.expr]] = {}
    for st_m in tree.body:
        if isinstance(st_m, ast.Assign):
            for t_m in st_m.targets:
                if isinstance(t_m, ast.Name):
                    mod_binds.setdefault(t_m.id, []).append(st_m.value)
        elif isinstance(st_m, ast.AnnAssign) and isinstance(st_m.target, ast.Name) and st_m.value is not None:
            mod_binds.setdefault(st_m.target.id, []).append(st_m.value)
    mod_tuples = {k: v[0] for k, v in mod_binds.items() if len(v) == 1 and isinstance(v[0], (ast.Tuple, ast.List)) and 1 <= len(v[0].elts) <= MAX_UNROLL and all(isinstance(e, simple_) for e in v[0].elts)}

    def leaves_early(body: List[ast.stmt]) -> bool:
        todo: List[ast.AST] = list(body)
        while todo:
            n = todo.pop()
            if isinstance(n, (ast.Break, ast.Continue)):
                return True
            if isinstance(n, (ast.For, ast.AsyncFor, ast.While)):
                # break / continue inside a nested loop belong to that loop; its `else` arm belongs to us
                todo.extend(n.orelse)
                continue
            if isinstance(n, (ast.FunctionDef, ast.AsyncFunctionDef, ast.Lambda, ast.ClassDef)):
                continue
            todo.extend(ast.iter_child_nodes(n))
        return False

    def do_fn(fn: ast.AST) -> None:
        nonlocal count

        def reads_total(name: str) -> int:
            return sum(1 for x in ast.walk(fn) if isinstance(x, ast.Name) and x.id == name)

        def block(body: List[ast.stmt]) -> List[ast.stmt]:
            nonlocal count
            out: List[ast.stmt] = []
            for st in body:
                for fld in ('body', 'orelse', 'finalbody'):
                    sub = getattr(st, fld, None)
                    if isinstance(sub, list) and sub and isinstance(sub[0], ast.stmt) and not isinstance(st, (ast.FunctionDef, ast.AsyncFunctionDef, ast.ClassDef)):
                        setattr(st, fld, block(sub))
                for hd in getattr(st, 'handlers', []) or []:
                    hd.body = block(hd.body)
                simple = (ast.Name, ast.Attribute, ast.Constant)
                if (isinstance(st, ast.For) and isinstance(st.iter, ast.Name) and st.iter.id in mod_tuples
                        and not any(isinstance(x, ast.Name) and x.id == st.iter.id and isinstance(x.ctx, (ast.Store, ast.Del)) for x in ast.walk(fn))):
                    st.iter = copy.deepcopy(mod_tuples[st.iter.id])
                if (isinstance(st, ast.For) and not st.orelse and isinstance(st.iter, (ast.Tuple, ast.List)) and 1 <= len(st.iter.elts) <= MAX_UNROLL
                        and not leaves_early(st.body)):
                    # one name per row, or a tuple of names unpacked from rows that are literal tuples of the same width
                    names: List[str] = []
                    rows: List[List[ast.expr]] = []
                    if isinstance(st.target, ast.Name) and all(isinstance(e, simple) for e in st.iter.elts):
                        names = [st.target.id]
                        rows = [[e] for e in st.iter.elts]
                    elif (isinstance(st.target, ast.Tuple) and all(isinstance(t, ast.Name) for t in st.target.elts)
                          and all(isinstance(e, ast.Tuple) and len(e.elts) == len(st.target.elts) and all(isinstance(x_, simple) for x_ in e.elts) for e in st.iter.elts)):
                        names = [t.id for t in st.target.elts]  # type: ignore[attr-defined]
                        rows = [list(e.elts) for e in st.iter.elts]  # type: ignore[attr-defined]
                    ok_u = bool(names) and len(set(names)) == len(names)
                    nested_fn = any(isinstance(n, (ast.Lambda, ast.FunctionDef, ast.AsyncFunctionDef)) for b in st.body for n in ast.walk(b))
                    for x in names:
                        inside = sum(1 for b in st.body for n in ast.walk(b) if isinstance(n, ast.Name) and n.id == x)
                        rebinds = any(isinstance(n, ast.Name) and n.id == x and isinstance(n.ctx, (ast.Store, ast.Del)) for b in st.body for n in ast.walk(b))
                        # every other occurrence of the name belongs to another loop that binds it afresh (`for t in (A, B): ...`
                        # twice with the same variable)
                        owned = 0
                        for other in ast.walk(fn):
                            if isinstance(other, ast.For) and other is not st and any(isinstance(t_, ast.Name) and t_.id == x for t_ in ast.walk(other.target)) and not any(o2 is st for o2 in ast.walk(other)) and not any(o2 is other for o2 in ast.walk(st)):
                                owned += sum(1 for n in ast.walk(other) if isinstance(n, ast.Name) and n.id == x)
                        ok_u = ok_u and not rebinds and reads_total(x) == inside + len([1 for t_ in ast.walk(st.target) if isinstance(t_, ast.Name) and t_.id == x]) + owned
                    if ok_u and not nested_fn:
                        for row in rows:
                            bodies = [copy.deepcopy(b) for b in st.body]
                            for x, e in zip(names, row):
                                rep = _Replace(x, e)
                                bodies = [rep.visit(b) for b in bodies]
                            out.extend(bodies)
                        count += 1
                        continue
                out.append(st)
            return out

        fn.body = block(fn.body)  # type: ignore[attr-defined]

    for n in ast.walk(tree):
        if isinstance(n, (ast.FunctionDef, ast.AsyncFunctionDef)):
            do_fn(n)
    return count

"""Whole-tree behaviour-preserving twins: (a) every module re-emitted by ast.unparse (formatting, comments,
line numbers change); (b) additionally every local variable of every function renamed.  `check all` must not
report a VIOLATION on either (an ANALYSIS-ERROR is tolerated but counted)."""
from __future__ import annotations

import ast
import os
import shutil
import subprocess
import sys
import tempfile
from typing import Dict, List, Set

HERE = os.path.dirname(os.path.abspath(__file__))
VERIF = os.path.dirname(HERE)


class _Locals(ast.NodeVisitor):
    def __init__(self) -> None:
        self.stores: Set[str] = set()
        self.globals: Set[str] = set()

    def visit_Name(self, n: ast.Name) -> None:
        if isinstance(n.ctx, (ast.Store, ast.Del)):
            self.stores.add(n.id)

    def visit_Global(self, n: ast.Global) -> None:
        self.globals.update(n.names)

    def visit_Nonlocal(self, n: ast.Nonlocal) -> None:
        self.globals.update(n.names)

    def visit_ExceptHandler(self, n: ast.ExceptHandler) -> None:
        if n.name:
            self.stores.add(n.name)
        self.generic_visit(n)

    def visit_FunctionDef(self, n: ast.FunctionDef) -> None:  # nested scopes: do not collect
        pass

    visit_AsyncFunctionDef = visit_FunctionDef  # type: ignore[assignment]
    visit_Lambda = visit_FunctionDef  # type: ignore[assignment]
    visit_ClassDef = visit_FunctionDef  # type: ignore[assignment]


class _Rename(ast.NodeTransformer):
    def __init__(self, mapping: Dict[str, str]) -> None:
        self.m = mapping

    def visit_Name(self, n: ast.Name) -> ast.AST:
        if n.id in self.m:
            return ast.copy_location(ast.Name(id=self.m[n.id], ctx=n.ctx), n)
        return n

    def visit_ExceptHandler(self, n: ast.ExceptHandler) -> ast.AST:
        if n.name in self.m:
            n.name = self.m[n.name]
        self.generic_visit(n)
        return n


def rename_locals(tree: ast.AST, suffix: str = '_rn') -> ast.AST:
    for fn in [n for n in ast.walk(tree) if isinstance(n, (ast.FunctionDef, ast.AsyncFunctionDef))]:
        a = fn.args
        params = {x.arg for x in a.posonlyargs + a.args + a.kwonlyargs} | ({a.vararg.arg} if a.vararg else set()) | ({a.kwarg.arg} if a.kwarg else set())
        lv = _Locals()
        for st in fn.body:
            lv.visit(st)
        # names rebound in nested scopes are left alone
        nested: Set[str] = set()
        for sub in ast.walk(fn):
            if sub is not fn and isinstance(sub, (ast.FunctionDef, ast.AsyncFunctionDef, ast.Lambda)):
                sa = sub.args
                nested |= {x.arg for x in sa.posonlyargs + sa.args + sa.kwonlyargs}
        names = {n for n in lv.stores if n not in params and n not in lv.globals and n not in nested and not n.startswith('__')}
        mapping = {n: n + suffix for n in names}
        r = _Rename(mapping)
        fn.body = [r.visit(st) for st in fn.body]
    return tree


class _FlipCompare(ast.NodeTransformer):
    """a < b -> b > a (and <=, >=, ==, !=): same meaning, other spelling."""

    FLIP = {ast.Lt: ast.Gt, ast.Gt: ast.Lt, ast.LtE: ast.GtE, ast.GtE: ast.LtE, ast.Eq: ast.Eq, ast.NotEq: ast.NotEq}

    def visit_Compare(self, n: ast.Compare) -> ast.AST:
        self.generic_visit(n)
        if len(n.ops) == 1 and type(n.ops[0]) in self.FLIP and not isinstance(n.left, ast.Constant) or (len(n.ops) == 1 and type(n.ops[0]) in self.FLIP and isinstance(n.left, ast.Constant)):
            return ast.copy_location(ast.Compare(left=n.comparators[0], ops=[self.FLIP[type(n.ops[0])]()], comparators=[n.left]), n)
        return n


class _SwapIfElse(ast.NodeTransformer):
    """if c: A else: B  ->  if not c: B else: A   (plain if/else only, no elif chains)."""

    def visit_If(self, n: ast.If) -> ast.AST:
        self.generic_visit(n)
        if n.orelse and not (len(n.orelse) == 1 and isinstance(n.orelse[0], ast.If)) and not (isinstance(n.test, ast.Name) and n.test.id == 'TYPE_CHECKING') and not (isinstance(n.test, ast.Attribute) and n.test.attr == 'TYPE_CHECKING'):
            return ast.copy_location(ast.If(test=ast.UnaryOp(op=ast.Not(), operand=n.test), body=n.orelse, orelse=n.body), n)
        return n


class _ReturnTemp(ast.NodeTransformer):
    """return <expr>  ->  result_tw = <expr>; return result_tw   (non-trivial expressions only)."""

    def _block(self, body: List[ast.stmt]) -> List[ast.stmt]:
        out: List[ast.stmt] = []
        for st in body:
            if isinstance(st, ast.Return) and st.value is not None and not isinstance(st.value, (ast.Name, ast.Constant)):
                out.append(ast.copy_location(ast.Assign(targets=[ast.Name(id='result_tw', ctx=ast.Store())], value=st.value), st))
                out.append(ast.copy_location(ast.Return(value=ast.Name(id='result_tw', ctx=ast.Load())), st))
            else:
                out.append(st)
        return out

    def generic_visit(self, node: ast.AST) -> ast.AST:
        super().generic_visit(node)
        for fld in ('body', 'orelse', 'finalbody'):
            v = getattr(node, fld, None)
            if isinstance(v, list) and v and isinstance(v[0], ast.stmt):
                setattr(node, fld, self._block(v))
        return node


class _IfExpToIf(ast.NodeTransformer):
    """x = a if c else b  ->  if c: x = a  else: x = b   (plain single-target assignments)."""

    def visit_Assign(self, n: ast.Assign) -> ast.AST:
        if isinstance(n.value, ast.IfExp) and len(n.targets) == 1 and isinstance(n.targets[0], ast.Name):
            t = n.targets[0]
            return ast.copy_location(ast.If(test=n.value.test, body=[ast.Assign(targets=[t], value=n.value.body)], orelse=[ast.Assign(targets=[ast.Name(id=t.id, ctx=ast.Store())], value=n.value.orelse)]), n)
        return n


class _AugToPlain(ast.NodeTransformer):
    """x += e  ->  x = x + e   (name and attribute targets; subscript targets would evaluate the index twice)."""

    def visit_AugAssign(self, n: ast.AugAssign) -> ast.AST:
        if isinstance(n.target, ast.Name):
            load: ast.expr = ast.Name(id=n.target.id, ctx=ast.Load())
        elif isinstance(n.target, ast.Attribute) and isinstance(n.target.value, ast.Name):
            load = ast.Attribute(value=n.target.value, attr=n.target.attr, ctx=ast.Load())
        else:
            return n
        return ast.copy_location(ast.Assign(targets=[n.target], value=ast.BinOp(left=load, op=n.op, right=n.value)), n)


class _LogEntry(ast.NodeTransformer):
    """A debug log line at the top of every function of a module that already imports `log`."""

    def __init__(self, has_log: bool) -> None:
        self.has_log = has_log

    def _fn(self, n: ast.AST) -> ast.AST:
        self.generic_visit(n)
        if not self.has_log:
            return n
        body = n.body  # type: ignore[attr-defined]
        k = 1 if body and isinstance(body[0], ast.Expr) and isinstance(body[0].value, ast.Constant) and isinstance(body[0].value.value, str) else 0
        call = ast.Expr(value=ast.Call(func=ast.Attribute(value=ast.Name(id='log', ctx=ast.Load()), attr='debug', ctx=ast.Load()), args=[ast.Constant(value='enter %s'), ast.Constant(value=n.name)], keywords=[]))  # type: ignore[attr-defined]
        n.body = body[:k] + [call] + body[k:]  # type: ignore[attr-defined]
        return n

    visit_FunctionDef = _fn  # type: ignore[assignment]
    visit_AsyncFunctionDef = _fn  # type: ignore[assignment]


def _signatures(repo: str) -> Dict[tuple, List[str]]:
    """(module rel, line, col) of every call whose callee the program model knows without type inference -> its
    positional parameter names (used to respell positional arguments as keywords)."""
    sys.path.insert(0, VERIF)
    from sa.pm import Program, walk_local_ordered

    prog = Program(repo)
    out: Dict[tuple, List[str]] = {}
    for m in prog.modules.values():
        for f in m.functions.values():
            for c in walk_local_ordered(f.node):
                if isinstance(c, ast.Call):
                    sig = prog.signature_of_call(m, f, c)
                    if sig:
                        out[(m.rel, c.lineno, c.col_offset)] = sig
    return out


class _SwapIndependent(ast.NodeTransformer):
    """Two adjacent plain assignments to different names, neither reading the other's target and neither calling anything,
    are swapped (pairs are disjoint: after a swap the scan continues behind the pair)."""

    @staticmethod
    def _simple(st: ast.stmt) -> bool:
        return (isinstance(st, ast.Assign) and len(st.targets) == 1 and isinstance(st.targets[0], ast.Name)
                and not any(isinstance(x, (ast.Call, ast.Await, ast.Yield, ast.YieldFrom, ast.NamedExpr)) for x in ast.walk(st.value)))

    def _block(self, body: List[ast.stmt]) -> List[ast.stmt]:
        out = list(body)
        i = 0
        while i + 1 < len(out):
            a, b = out[i], out[i + 1]
            if self._simple(a) and self._simple(b):
                ta, tb = a.targets[0].id, b.targets[0].id  # type: ignore[attr-defined]
                reads_a = {x.id for x in ast.walk(a.value) if isinstance(x, ast.Name)}  # type: ignore[attr-defined]
                reads_b = {x.id for x in ast.walk(b.value) if isinstance(x, ast.Name)}  # type: ignore[attr-defined]
                if ta != tb and ta not in reads_b and tb not in reads_a:
                    out[i], out[i + 1] = b, a
                    i += 2
                    continue
            i += 1
        return out

    def generic_visit(self, node: ast.AST) -> ast.AST:
        super().generic_visit(node)
        for fld in ('body', 'orelse', 'finalbody'):
            v = getattr(node, fld, None)
            if isinstance(v, list) and v and isinstance(v[0], ast.stmt) and not isinstance(node, (ast.Module, ast.ClassDef)):
                setattr(node, fld, self._block(v))
        return node


class _CondTemp(ast.NodeTransformer):
    """if <expr>: ...  ->  cond_tw_N = <expr>; if cond_tw_N: ...   (first `if` of an elif chain only)."""

    def __init__(self) -> None:
        self.k = 0

    def _block(self, body: List[ast.stmt]) -> List[ast.stmt]:
        out: List[ast.stmt] = []
        for st in body:
            if isinstance(st, ast.If) and not isinstance(st.test, (ast.Name, ast.Constant)) and not (isinstance(st.test, ast.Attribute) and st.test.attr == 'TYPE_CHECKING'):
                self.k += 1
                nm = f'cond_tw_{self.k}'
                out.append(ast.copy_location(ast.Assign(targets=[ast.Name(id=nm, ctx=ast.Store())], value=st.test), st))
                st.test = ast.copy_location(ast.Name(id=nm, ctx=ast.Load()), st.test)
            out.append(st)
        return out

    def generic_visit(self, node: ast.AST) -> ast.AST:
        super().generic_visit(node)
        for fld in ('body', 'orelse', 'finalbody'):
            v = getattr(node, fld, None)
            if isinstance(v, list) and v and isinstance(v[0], ast.stmt) and not isinstance(node, (ast.Module, ast.ClassDef)):
                if fld == 'orelse' and isinstance(node, ast.If) and len(v) == 1 and isinstance(v[0], ast.If):
                    continue  # keep elif chains intact
                setattr(node, fld, self._block(v))
        return node


class _DeMorgan(ast.NodeTransformer):
    """A boolean operation in a boolean context (test of if / while / conditional expression / assert, operand of `not`) is
    respelled through De Morgan: a and b -> not (not a or not b); a or b -> not (not a and not b)."""

    @staticmethod
    def _dm(e: ast.expr) -> ast.expr:
        if isinstance(e, ast.BoolOp):
            other = ast.Or() if isinstance(e.op, ast.And) else ast.And()
            inner = ast.BoolOp(op=other, values=[ast.UnaryOp(op=ast.Not(), operand=v) for v in e.values])
            return ast.copy_location(ast.UnaryOp(op=ast.Not(), operand=inner), e)
        return e

    def visit_If(self, n: ast.If) -> ast.AST:
        self.generic_visit(n)
        n.test = self._dm(n.test)
        return n

    def visit_While(self, n: ast.While) -> ast.AST:
        self.generic_visit(n)
        n.test = self._dm(n.test)
        return n

    def visit_IfExp(self, n: ast.IfExp) -> ast.AST:
        self.generic_visit(n)
        n.test = self._dm(n.test)
        return n


def _negate(e: ast.expr) -> ast.expr:
    """The way a person writes the opposite test: `x is None` -> `x is not None`, `not x` -> `x`, otherwise `not (e)`."""
    opp = {ast.Is: ast.IsNot, ast.IsNot: ast.Is, ast.In: ast.NotIn, ast.NotIn: ast.In, ast.Eq: ast.NotEq, ast.NotEq: ast.Eq}
    if isinstance(e, ast.Compare) and len(e.ops) == 1 and type(e.ops[0]) in opp:
        return ast.copy_location(ast.Compare(left=e.left, ops=[opp[type(e.ops[0])]()], comparators=e.comparators), e)
    if isinstance(e, ast.UnaryOp) and isinstance(e.op, ast.Not):
        return e.operand
    return ast.copy_location(ast.UnaryOp(op=ast.Not(), operand=e), e)


class _Blocks(ast.NodeTransformer):
    """Base: rewrites every statement list below a function."""

    def _block(self, body: List[ast.stmt], owner: ast.AST, fld: str) -> List[ast.stmt]:
        raise NotImplementedError

    def generic_visit(self, node: ast.AST) -> ast.AST:
        super().generic_visit(node)
        for fld in ('body', 'orelse', 'finalbody'):
            v = getattr(node, fld, None)
            if isinstance(v, list) and v and isinstance(v[0], ast.stmt) and not isinstance(node, (ast.Module, ast.ClassDef)):
                setattr(node, fld, self._block(v, node, fld))
        return node


class _GuardToNest(_Blocks):
    """Inside a loop body `if c: continue; REST` -> `if not c: REST`; at the top level of a function that returns nothing but
    None, `if c: return; REST` -> `if not c: REST` (REST non-empty in both cases)."""

    def _block(self, body: List[ast.stmt], owner: ast.AST, fld: str) -> List[ast.stmt]:
        loop = isinstance(owner, (ast.For, ast.AsyncFor, ast.While)) and fld == 'body'
        fn = isinstance(owner, (ast.FunctionDef, ast.AsyncFunctionDef)) and fld == 'body'
        if fn:
            rets = [x for x in ast.walk(owner) if isinstance(x, ast.Return)]
            gen = any(isinstance(x, (ast.Yield, ast.YieldFrom)) for x in ast.walk(owner))
            fn = not gen and all(r.value is None or (isinstance(r.value, ast.Constant) and r.value.value is None) for r in rets)
        if not (loop or fn):
            return body
        for i, st in enumerate(body[:-1]):
            if isinstance(st, ast.If) and not st.orelse and len(st.body) == 1:
                only = st.body[0]
                hit = (loop and isinstance(only, ast.Continue)) or (fn and isinstance(only, ast.Return) and only.value is None)
                if hit:
                    rest = self._block(body[i + 1:], owner, fld)
                    return body[:i] + [ast.copy_location(ast.If(test=_negate(st.test), body=rest, orelse=[]), st)]
        return body


class _ElseAfterJump(_Blocks):
    """`if c: ...; return/raise/continue/break` followed by REST -> the same `if` with REST as its else branch."""

    def _block(self, body: List[ast.stmt], owner: ast.AST, fld: str) -> List[ast.stmt]:
        for i, st in enumerate(body[:-1]):
            if isinstance(st, ast.If) and not st.orelse and isinstance(st.body[-1], (ast.Return, ast.Raise, ast.Continue, ast.Break)):
                rest = self._block(body[i + 1:], owner, fld)
                return body[:i] + [ast.copy_location(ast.If(test=st.test, body=st.body, orelse=rest), st)]
        return body


class _TupleAssign(_Blocks):
    """Two adjacent independent call-free assignments to different names become one tuple assignment: a = x; b = y -> a, b = x, y."""

    def _block(self, body: List[ast.stmt], owner: ast.AST, fld: str) -> List[ast.stmt]:
        out: List[ast.stmt] = []
        i = 0
        simple = _SwapIndependent._simple
        while i < len(body):
            a = body[i]
            b = body[i + 1] if i + 1 < len(body) else None
            if b is not None and simple(a) and simple(b):
                ta, tb = a.targets[0].id, b.targets[0].id  # type: ignore[attr-defined]
                reads_b = {x.id for x in ast.walk(b.value) if isinstance(x, ast.Name)}  # type: ignore[attr-defined]
                if ta != tb and ta not in reads_b:
                    tgt = ast.Tuple(elts=[ast.Name(id=ta, ctx=ast.Store()), ast.Name(id=tb, ctx=ast.Store())], ctx=ast.Store())
                    val = ast.Tuple(elts=[a.value, b.value], ctx=ast.Load())  # type: ignore[attr-defined]
                    out.append(ast.copy_location(ast.Assign(targets=[tgt], value=val), a))
                    i += 2
                    continue
            out.append(a)
            i += 1
        return out


class _Keywordise(ast.NodeTransformer):
    """f(a, b) -> f(x=a, y=b) for every call whose parameter names are known."""

    def __init__(self, rel: str, sigs: Dict[tuple, List[str]]) -> None:
        self.rel, self.sigs, self.n = rel, sigs, 0

    def visit_Call(self, c: ast.Call) -> ast.AST:
        self.generic_visit(c)
        sig = self.sigs.get((self.rel, getattr(c, 'lineno', -1), getattr(c, 'col_offset', -1)))
        if sig and c.args and not any(isinstance(a, ast.Starred) for a in c.args) and len(c.args) <= len(sig) and not any(k.arg is None for k in c.keywords):
            kws = [ast.keyword(arg=sig[i], value=a) for i, a in enumerate(c.args)]
            c.keywords = kws + c.keywords
            c.args = []
            self.n += 1
        return c


def make_twin(repo: str, dest: str, rename: bool, extra: str = '') -> None:
    src = os.path.join(repo, 'src', 'zeroconf')
    for dirpath, dirnames, filenames in os.walk(src):
        dirnames[:] = [d for d in dirnames if d != '__pycache__']
        for fn in filenames:
            full = os.path.join(dirpath, fn)
            rel = os.path.relpath(full, repo)
            out = os.path.join(dest, rel)
            os.makedirs(os.path.dirname(out), exist_ok=True)
            if fn.endswith('.py'):
                tree = ast.parse(open(full, encoding='utf-8').read())
                if rename:
                    tree = rename_locals(tree)
                if extra == 'flip':
                    tree = _FlipCompare().visit(tree)
                if extra == 'swap':
                    tree = _SwapIfElse().visit(tree)
                if extra == 'rettmp':
                    tree = _ReturnTemp().visit(tree)
                if extra == 'ifexp':
                    tree = _IfExpToIf().visit(tree)
                if extra == 'aug':
                    tree = _AugToPlain().visit(tree)
                if extra == 'kwargs':
                    tree = _Keywordise(rel, _SIGS[0]).visit(tree)
                if extra == 'reorder':
                    tree = _SwapIndependent().visit(tree)
                if extra == 'condtmp':
                    tree = _CondTemp().visit(tree)
                if extra == 'demorgan':
                    tree = _DeMorgan().visit(tree)
                if extra == 'nest':
                    tree = _GuardToNest().visit(tree)
                if extra == 'elsejump':
                    tree = _ElseAfterJump().visit(tree)
                if extra == 'tuple':
                    tree = _TupleAssign().visit(tree)
                if extra == 'log':
                    has = any(isinstance(x, ast.ImportFrom) and any(a.name == 'log' for a in x.names) for x in tree.body)
                    tree = _LogEntry(has).visit(tree)
                text = ast.unparse(ast.fix_missing_locations(tree)) + '\n'
                compile(text, out, 'exec')
                open(out, 'w', encoding='utf-8').write(text)
            elif not fn.endswith(('.so', '.pyc')):
                shutil.copy(full, out)


_SIGS: List[Dict[tuple, List[str]]] = [{}]


def run(repo: str = '/repo', props: str = 'all') -> int:
    rc_all = 0
    _SIGS[0] = _signatures(repo)
    kinds = [(False, ''), (True, ''), (False, 'flip'), (False, 'swap'), (False, 'rettmp'), (False, 'ifexp'), (False, 'aug'), (False, 'log'), (False, 'kwargs'), (False, 'reorder'), (False, 'condtmp'), (False, 'demorgan'), (False, 'nest'), (False, 'elsejump'), (False, 'tuple')]
    if os.environ.get('VERIF_TWIN_KINDS'):
        want = os.environ['VERIF_TWIN_KINDS'].split(',')
        kinds = [k for k in kinds if (('rename' if k[0] else 'plain') if not k[1] else k[1]) in want]
    for rename, extra in kinds:
        d = tempfile.mkdtemp(prefix='verif-twin-', dir=os.environ.get('TMPDIR') or '/var/tmp')
        try:
            make_twin(repo, d, rename, extra)
            env = dict(os.environ)
            env['VERIF_EVIDENCE_DIR'] = os.path.join(d, 'evidence')
            out = ''
            for pr in props.split(','):
                p = subprocess.run([os.path.join(VERIF, 'check'), pr, '--tier', 'quick', '--repo', d], capture_output=True, text=True, env=env, cwd=VERIF)
                out += p.stdout + p.stderr
            viol = [l for l in out.splitlines() if l.startswith('VIOLATION') or l.lstrip().startswith('[C')]
            errs = [l for l in out.splitlines() if l.startswith('ANALYSIS-ERROR')]
            print(f'twin(unparse{"+rename-locals" if rename else ""}{"+" + extra if extra else ""}): exit {p.returncode}; {len([l for l in out.splitlines() if l.startswith("VIOLATION")])} violation line(s), {len(errs)} analysis error(s)')
            for l in viol[:200]:
                print('   ', l[:300])
            for l in errs[:40]:
                print('   ', l[:300])
            if any(l.startswith('VIOLATION') for l in out.splitlines()):
                rc_all = 1
        finally:
            shutil.rmtree(d, ignore_errors=True)
    return rc_all


if __name__ == '__main__':
    sys.exit(run('/repo', sys.argv[1] if len(sys.argv) > 1 else 'all'))

#!/venv/bin/python
"""Systematic single-node mutation sweep of the analysed package -- a coverage meter for the rules, not a registered check.

    mutate.py gen                      list the mutants (one JSON line each)
    mutate.py run [--jobs N] [--files a,b] [--limit K] [--out FILE]
                                      apply each mutant to a scratch copy, run the rules of ALL claimed properties on it
                                      (one process per mutant, one shared program model / type oracle / call graph), and
                                      record which rules fire (JSON lines)
    mutate.py eval <scratch-root>      (internal) run every rule on one tree and print the verdict as JSON
    mutate.py suite --in FILE [--jobs N] [--out FILE]
                                      for the mutants no rule fired on: run the repository's own test suite (private network
                                      namespace) to learn whether the tests kill them
    mutate.py report --in FILE         per file / function / operator summary

A mutant is ONE syntax-tree node respelled: a comparison operator moved to its neighbour (`<` -> `<=`, `==` -> `!=`, `is` ->
`is not`, `in` -> `not in`), `and` <-> `or`, a dropped `not`, a negated bare test, an integer constant +1, True <-> False,
`+` <-> `-`, `|` <-> `&`, `<<` <-> `>>`, a statement with a side effect removed (call statement, attribute / subscript
store, augmented assignment, `continue`, `break`, `raise`, `del`, a non-final `return`), the case-insensitive twin of a name
field swapped for the spelled one (`key` -> `name`, `alias_key` -> `alias`, `server_key` -> `server`), `.lower()` dropped,
and a lifetime predicate swapped for its neighbour (`is_expired` / `is_stale` / `is_recent`).  The source text outside the
node is untouched.  Nothing here decides a property: the sweep shows which realistic one-token slips the rules see, and the
ones they do not see are triaged by reading (equivalent / outside every property / gap -> a rule is added).
"""
from __future__ import annotations

import argparse
import ast
import concurrent.futures
import json
import os
import shutil
import subprocess
import sys
import tempfile
import time
from typing import Any, Dict, Iterator, List, Optional, Tuple

HERE = os.path.dirname(os.path.abspath(__file__))
VERIF = os.path.dirname(HERE)
PY = '/venv/bin/python'
PROPS = ['C%02d' % i for i in range(1, 21) if i != 7]

SKIP_FILES = {'__init__.py', '_exceptions.py', '_logger.py', '_utils/net.py', '_services/types.py', '_utils/__init__.py',
              '_handlers/__init__.py', '_protocol/__init__.py', '_services/__init__.py', '_transport.py'}
SKIP_FUNCS = {'__repr__', '__str__', 'to_string', '_repr_signature', '_entry_to_string', '__lt__', '__le__', '__gt__', '__ge__'}

CMP = {ast.Lt: ast.LtE, ast.LtE: ast.Lt, ast.Gt: ast.GtE, ast.GtE: ast.Gt, ast.Eq: ast.NotEq, ast.NotEq: ast.Eq,
       ast.Is: ast.IsNot, ast.IsNot: ast.Is, ast.In: ast.NotIn, ast.NotIn: ast.In}
BIN = {ast.Add: ast.Sub, ast.Sub: ast.Add, ast.BitOr: ast.BitAnd, ast.BitAnd: ast.BitOr, ast.LShift: ast.RShift,
       ast.RShift: ast.LShift, ast.Mult: ast.FloorDiv, ast.FloorDiv: ast.Mult, ast.Div: ast.Mult, ast.Mod: ast.FloorDiv}
ATTR = {'key': 'name', 'alias_key': 'alias', 'server_key': 'server'}
METH = {'is_expired': 'is_stale', 'is_stale': 'is_expired', 'is_recent': 'is_stale'}


def _is_log(call: ast.AST) -> bool:
    if not isinstance(call, ast.Call):
        return False
    f = call.func
    s = ast.unparse(f)
    return s.startswith(('log.', 'self.log_', 'QuietLogger.', 'logging.', 'warnings.')) or s.endswith(('.log_warning_once', '.log_exception_warning', '.log_exception_debug', '.log_exception_once'))


def _offsets(src: bytes) -> List[int]:
    offs = [0]
    for ln in src.split(b'\n'):
        offs.append(offs[-1] + len(ln) + 1)
    return offs


class _Gen(ast.NodeVisitor):
    def __init__(self, rel: str, src: bytes) -> None:
        self.rel = rel
        self.src = src
        self.offs = _offsets(src)
        self.stack: List[str] = []
        self.out: List[Dict[str, Any]] = []
        self.in_annot = 0

    # -- helpers
    def span(self, n: ast.AST) -> Tuple[int, int]:
        return self.offs[n.lineno - 1] + n.col_offset, self.offs[n.end_lineno - 1] + n.end_col_offset  # type: ignore[attr-defined]

    def emit(self, node: ast.AST, new: str, op: str, paren: bool = True) -> None:
        a, b = self.span(node)
        old = self.src[a:b].decode()
        text = f'({new})' if paren else new
        if text.strip('()') == old.strip('()'):
            return
        self.out.append({'file': self.rel, 'function': '.'.join(self.stack) or '<module>', 'line': node.lineno, 'op': op,  # type: ignore[attr-defined]
                         'old': ' '.join(old.split())[:160], 'new': ' '.join(text.split())[:160], 'start': a, 'end': b, 'text': text})

    def respell(self, node: ast.AST, mutate: Any, op: str) -> None:
        import copy

        c = copy.deepcopy(node)
        mutate(c)
        self.emit(node, ast.unparse(c), op)

    # -- scopes
    def visit_FunctionDef(self, n: Any) -> None:
        if n.name in SKIP_FUNCS:
            return
        self.stack.append(n.name)
        for i, st in enumerate(n.body):
            if i == 0 and isinstance(st, ast.Expr) and isinstance(st.value, ast.Constant) and isinstance(st.value.value, str):
                continue
            self.stmt(st, last=(i == len(n.body) - 1))
        self.stack.pop()

    visit_AsyncFunctionDef = visit_FunctionDef

    def visit_ClassDef(self, n: ast.ClassDef) -> None:
        self.stack.append(n.name)
        for st in n.body:
            if isinstance(st, (ast.FunctionDef, ast.AsyncFunctionDef, ast.ClassDef)):
                self.visit(st)
        self.stack.pop()

    def visit_Module(self, n: ast.Module) -> None:
        for st in n.body:
            if isinstance(st, (ast.FunctionDef, ast.AsyncFunctionDef, ast.ClassDef)):
                self.visit(st)
            elif isinstance(st, ast.Assign) and self.rel.endswith('const.py'):
                self.expr(st.value)

    # -- statements
    def block(self, body: List[ast.stmt], last_in_fn: bool = False) -> None:
        for i, st in enumerate(body):
            self.stmt(st, last=last_in_fn and i == len(body) - 1)

    def stmt(self, st: ast.stmt, last: bool = False) -> None:
        if isinstance(st, (ast.FunctionDef, ast.AsyncFunctionDef, ast.ClassDef)):
            self.visit(st)
            return
        if isinstance(st, ast.If) and ast.unparse(st.test) in ('TYPE_CHECKING', 'typing.TYPE_CHECKING'):
            return
        if isinstance(st, ast.Assert):
            return
        # removal of a statement with a side effect
        removable = False
        if isinstance(st, ast.Expr) and isinstance(st.value, (ast.Call, ast.Await)) and not _is_log(st.value) and not (isinstance(st.value, ast.Await) and _is_log(st.value.value)):
            removable = True
        elif isinstance(st, ast.Assign) and all(isinstance(t, (ast.Attribute, ast.Subscript)) for t in st.targets):
            removable = True
        elif isinstance(st, (ast.AugAssign, ast.Continue, ast.Break, ast.Raise, ast.Delete)):
            removable = True
        elif isinstance(st, ast.Return) and not last:
            removable = True
        if removable and self.stack:
            self.emit(st, 'pass', 'del-stmt', paren=False)
        if isinstance(st, ast.Expr):
            if not _is_log(st.value) and not (isinstance(st.value, ast.Constant)):
                self.expr(st.value)
        elif isinstance(st, (ast.Assign, ast.AnnAssign, ast.AugAssign)):
            if st.value is not None:
                self.expr(st.value)
            for t in (st.targets if isinstance(st, ast.Assign) else [st.target]):
                if isinstance(t, ast.Subscript):
                    self.expr(t.slice)
                    self.expr(t.value)
        elif isinstance(st, ast.Return):
            if st.value is not None:
                self.expr(st.value)
        elif isinstance(st, (ast.If, ast.While)):
            self.test(st.test)
            self.block(st.body)
            self.block(st.orelse, last_in_fn=False)
        elif isinstance(st, (ast.For, ast.AsyncFor)):
            self.expr(st.iter)
            self.block(st.body)
            self.block(st.orelse)
        elif isinstance(st, (ast.With, ast.AsyncWith)):
            for it in st.items:
                self.expr(it.context_expr)
            self.block(st.body)
        elif isinstance(st, ast.Try):
            self.block(st.body)
            for h in st.handlers:
                self.block(h.body)
            self.block(st.orelse)
            self.block(st.finalbody)
        elif isinstance(st, ast.Raise):
            pass
        elif isinstance(st, ast.Delete):
            for t in st.targets:
                if isinstance(t, ast.Subscript):
                    self.expr(t.slice)

    def test(self, t: ast.expr) -> None:
        if not isinstance(t, (ast.Compare, ast.BoolOp, ast.UnaryOp)):
            self.emit(t, 'not ' + ast.unparse(t) if not isinstance(t, (ast.IfExp, ast.NamedExpr, ast.Lambda)) else f'not ({ast.unparse(t)})', 'negate-test')
        self.expr(t)

    # -- expressions
    def expr(self, e: Optional[ast.AST]) -> None:
        if e is None:
            return
        for n in ast.walk(e):
            if isinstance(n, ast.Compare) and len(n.ops) == 1 and type(n.ops[0]) in CMP:
                def m(c: Any) -> None:
                    c.ops = [CMP[type(c.ops[0])]()]
                self.respell(n, m, 'cmp ' + type(n.ops[0]).__name__ + '->' + CMP[type(n.ops[0])].__name__)
            elif isinstance(n, ast.BoolOp):
                def m2(c: Any) -> None:
                    c.op = ast.Or() if isinstance(c.op, ast.And) else ast.And()
                self.respell(n, m2, 'boolop ' + type(n.op).__name__)
                if len(n.values) >= 2:
                    for i in range(len(n.values)):
                        def m3(c: Any, i: int = i) -> None:
                            del c.values[i]
                        if len(n.values) == 2:
                            self.emit(n, ast.unparse(n.values[1 - i]), f'boolop drop operand {i}')
                        else:
                            self.respell(n, m3, f'boolop drop operand {i}')
            elif isinstance(n, ast.UnaryOp) and isinstance(n.op, ast.Not):
                self.emit(n, ast.unparse(n.operand), 'drop-not')
            elif isinstance(n, ast.Constant) and isinstance(n.value, bool):
                self.emit(n, str(not n.value), 'bool-const', paren=False)
            elif isinstance(n, ast.Constant) and isinstance(n.value, int) and not isinstance(n.value, bool):
                self.emit(n, str(n.value + 1), 'int+1', paren=False)
                if n.value > 1:
                    self.emit(n, str(n.value - 1), 'int-1', paren=False)
            elif isinstance(n, ast.BinOp) and type(n.op) in BIN and not (isinstance(n.op, ast.Mod) and isinstance(n.left, ast.Constant) and isinstance(n.left.value, str)) and not (isinstance(n.op, ast.Add) and any(isinstance(x, ast.Constant) and isinstance(x.value, (str, bytes)) for x in (n.left, n.right))):
                def m4(c: Any) -> None:
                    c.op = BIN[type(c.op)]()
                self.respell(n, m4, 'binop ' + type(n.op).__name__ + '->' + BIN[type(n.op)].__name__)
            elif isinstance(n, ast.Call) and isinstance(n.func, ast.Attribute) and n.func.attr == 'lower' and not n.args:
                self.emit(n, ast.unparse(n.func.value), 'drop-lower')
            elif isinstance(n, ast.Call) and isinstance(n.func, ast.Attribute) and n.func.attr in METH:
                def m5(c: Any) -> None:
                    c.func.attr = METH[c.func.attr]
                self.respell(n, m5, 'predicate ' + n.func.attr + '->' + METH[n.func.attr])
            elif isinstance(n, ast.Attribute) and n.attr in ATTR and isinstance(n.ctx, ast.Load):
                def m6(c: Any) -> None:
                    c.attr = ATTR[c.attr]
                self.respell(n, m6, 'field ' + n.attr + '->' + ATTR[n.attr])
            elif isinstance(n, ast.IfExp):
                self.emit(n.test, 'not (' + ast.unparse(n.test) + ')', 'negate-ifexp')


def generate(repo: str, files: Optional[List[str]] = None) -> List[Dict[str, Any]]:
    root = os.path.join(repo, 'src', 'zeroconf')
    out: List[Dict[str, Any]] = []
    for dp, _, fns in sorted(os.walk(root)):
        for fn in sorted(fns):
            if not fn.endswith('.py'):
                continue
            full = os.path.join(dp, fn)
            rel = os.path.relpath(full, root)
            if rel in SKIP_FILES or (files and rel not in files):
                continue
            src = open(full, 'rb').read()
            g = _Gen(rel, src)
            g.visit(ast.parse(src))
            seen = set()
            for m in g.out:
                k = (m['start'], m['end'], m['text'])
                if k in seen:
                    continue
                seen.add(k)
                new_src = src[:m['start']] + m['text'].encode() + src[m['end']:]
                try:
                    compile(new_src, full, 'exec')
                except SyntaxError:
                    continue
                out.append(m)
    for i, m in enumerate(out):
        m['id'] = f"m{i:05d}"
    return out


# ---------------------------------------------------------------------------------------------------------------------------
def evaluate(root: str) -> Dict[str, Any]:
    """Run every rule of every claimed property on the tree at `root` with one shared context; no evidence is written."""
    sys.path.insert(0, VERIF)
    import importlib

    from sa import AnalysisError, StructuralViolation
    from sa.context import Context
    from sa.report import _matches, load_known

    known = load_known()
    fired: Dict[str, List[str]] = {}
    errors: Dict[str, List[str]] = {}
    ctx = Context(root, 'quick')
    for prop in PROPS:
        mod = importlib.import_module(f'rules.{prop.lower()}')
        for r in mod.RULES:
            if r.tier == 'thorough':
                continue
            try:
                obs = r.fn(ctx)
                bad = [o for o in obs if not o.ok and not any(e.get('property') == prop and _matches(e, o) for e in known)]
                if bad:
                    fired.setdefault(prop, []).append(r.id)
                elif len(obs) < r.expect_min:
                    errors.setdefault(prop, []).append(f'{r.id}: instance floor')
            except StructuralViolation:
                fired.setdefault(prop, []).append(r.id)
            except AnalysisError as e:
                errors.setdefault(prop, []).append(f'{r.id}: {str(e)[:160]}')
            except Exception as e:  # noqa: BLE001
                errors.setdefault(prop, []).append(f'{r.id}: internal {type(e).__name__}: {str(e)[:120]}')
    return {'fired': fired, 'errors': errors}


def _scratch(repo: str, m: Dict[str, Any]) -> str:
    d = tempfile.mkdtemp(prefix='verif-mut-', dir=os.environ.get('TMPDIR') or '/var/tmp')
    shutil.copytree(os.path.join(repo, 'src', 'zeroconf'), os.path.join(d, 'src', 'zeroconf'), ignore=shutil.ignore_patterns('__pycache__', '*.pyc', '*.so'))
    p = os.path.join(d, 'src', 'zeroconf', m['file'])
    src = open(p, 'rb').read()
    open(p, 'wb').write(src[:m['start']] + m['text'].encode() + src[m['end']:])
    return d


def run_one(repo: str, m: Dict[str, Any]) -> Dict[str, Any]:
    d = _scratch(repo, m)
    t0 = time.time()
    try:
        p = subprocess.run([PY, os.path.abspath(__file__), 'eval', d], capture_output=True, text=True, timeout=900, cwd=VERIF)
        try:
            res = json.loads(p.stdout.strip().splitlines()[-1])
        except Exception:  # noqa: BLE001
            res = {'fired': {}, 'errors': {'driver': [(p.stderr or p.stdout)[-300:]]}}
    except subprocess.TimeoutExpired:
        res = {'fired': {}, 'errors': {'driver': ['timeout']}}
    finally:
        shutil.rmtree(d, ignore_errors=True)
    r = {k: m[k] for k in ('id', 'file', 'function', 'line', 'op', 'old', 'new', 'start', 'end', 'text')}
    r.update(res)
    r['wall_s'] = round(time.time() - t0, 1)
    return r


def run_suite_on(repo: str, m: Dict[str, Any]) -> Dict[str, Any]:
    """Does the repository's own suite kill the mutant?  A scratch copy of the whole repository (tests included)."""
    d = tempfile.mkdtemp(prefix='verif-mutsuite-', dir=os.environ.get('TMPDIR') or '/var/tmp')
    try:
        subprocess.run(['rsync', '-a', '--exclude', '.git', '--exclude', '__pycache__', '--exclude', 'build', '--exclude', 'docs', '--exclude', 'bench', repo + '/', d + '/'], check=True)
        p = os.path.join(d, 'src', 'zeroconf', m['file'])
        src = open(p, 'rb').read()
        open(p, 'wb').write(src[:m['start']] + m['text'].encode() + src[m['end']:])
        cmd = ("unshare -n sh -c 'ip link set lo up; ip link set lo multicast on; ip route add 224.0.0.0/4 dev lo; cd %s && "
               "timeout 900 %s -m pytest -q -x -p no:cacheprovider --no-cov --timeout=120 -q "
               "--deselect tests/services/test_types.py::test_integration_with_listener_ipv6 2>&1 | tail -6'" % (d, PY))
        q = subprocess.run(cmd, shell=True, capture_output=True, text=True, timeout=1200)
        out = q.stdout + q.stderr
        import re

        mm = re.search(r'(\d+) passed', out)
        failed = ' failed' in out or ' error' in out.lower() or 'Timeout' in out
        return {'id': m['id'], 'suite': 'killed' if failed or not mm else 'survived', 'tail': out[-300:]}
    except subprocess.TimeoutExpired:
        return {'id': m['id'], 'suite': 'killed', 'tail': 'timeout'}
    finally:
        shutil.rmtree(d, ignore_errors=True)


def main() -> int:
    ap = argparse.ArgumentParser()
    ap.add_argument('cmd', choices=['gen', 'run', 'eval', 'suite', 'report'])
    ap.add_argument('root', nargs='?')
    ap.add_argument('--repo', default='/repo')
    ap.add_argument('--jobs', type=int, default=12)
    ap.add_argument('--files', default='')
    ap.add_argument('--limit', type=int, default=0)
    ap.add_argument('--stride', default='', help='i/n: every n-th mutant starting at i')
    ap.add_argument('--out', default='')
    ap.add_argument('--in', dest='inp', default='')
    a = ap.parse_args()
    if a.cmd == 'eval':
        res = evaluate(a.root)
        sys.stdout.flush()
        print(json.dumps(res))
        sys.stdout.flush()
        os._exit(0)
    if a.cmd == 'gen':
        ms = generate(a.repo, a.files.split(',') if a.files else None)
        for m in ms:
            print(json.dumps({k: m[k] for k in ('id', 'file', 'function', 'line', 'op', 'old', 'new')}))
        print(f'{len(ms)} mutants', file=sys.stderr)
        return 0
    if a.cmd == 'run':
        ms = generate(a.repo, a.files.split(',') if a.files else None)
        if a.stride:
            i, n = map(int, a.stride.split('/'))
            ms = ms[i::n]
        if a.limit:
            ms = ms[:a.limit]
        out = open(a.out, 'w') if a.out else sys.stdout
        done = 0
        with concurrent.futures.ThreadPoolExecutor(max_workers=a.jobs) as ex:
            for r in ex.map(lambda m: run_one(a.repo, m), ms):
                out.write(json.dumps(r) + '\n')
                out.flush()
                done += 1
                if done % 50 == 0:
                    print(f'{done}/{len(ms)}', file=sys.stderr, flush=True)
        return 0
    if a.cmd == 'suite':
        rows = [json.loads(l) for l in open(a.inp)]
        todo = [r for r in rows if not r['fired']]
        if a.files:
            todo = [r for r in todo if r['file'] in a.files.split(',')]
        if a.limit:
            todo = todo[:a.limit]
        done_ids = set()
        if a.out and os.path.exists(a.out):
            done_ids = {json.loads(l)['id'] for l in open(a.out) if l.strip()}
        todo = [r for r in todo if r['id'] not in done_ids]
        out = open(a.out, 'a') if a.out else sys.stdout
        with concurrent.futures.ThreadPoolExecutor(max_workers=a.jobs) as ex:
            for r in ex.map(lambda m: run_suite_on(a.repo, m), todo):
                out.write(json.dumps(r) + '\n')
                out.flush()
        return 0
    if a.cmd == 'report':
        import collections

        rows = [json.loads(l) for l in open(a.inp)]
        tot = len(rows)
        caught = [r for r in rows if r['fired']]
        err = [r for r in rows if not r['fired'] and r['errors']]
        print(f'{tot} mutants: {len(caught)} caught by a rule, {len(err)} analysis error only, {tot - len(caught) - len(err)} silent')
        byf: Dict[str, List[int]] = collections.defaultdict(lambda: [0, 0, 0])
        for r in rows:
            b = byf[r['file']]
            b[0] += 1
            b[1] += bool(r['fired'])
            b[2] += (not r['fired'] and bool(r['errors']))
        for f, (n, c, e) in sorted(byf.items()):
            print(f'  {f:45s} {n:5d} mutants  caught {c:5d} ({100 * c // max(n, 1):3d}%)  error-only {e}')
        return 0
    return 2


if __name__ == '__main__':
    sys.exit(main())

"""Behaviour-preserving refactorings written by independent sub-agents (selftest/refactorings/<name>.diff, each confirmed to
keep the repository's suite green): `check all` must stay silent on each of them -- no VIOLATION, no ANALYSIS-ERROR -- except
for findings that are already known on the unchanged tree.  A refactoring whose patch no longer applies to the current tree is
skipped (the patches are anchored in the tree of their day).

usage: refactorings.py [--id SUBSTR] [--repo PATH] [--jobs N]
"""
from __future__ import annotations

import argparse
import concurrent.futures
import os
import shutil
import subprocess
import sys
import tempfile
from typing import Any, Dict, List

HERE = os.path.dirname(os.path.abspath(__file__))
VERIF = os.path.dirname(HERE)
STORE = os.path.join(HERE, 'refactorings')


def _scratch_base() -> str:
    for d in ('/var/tmp', tempfile.gettempdir()):
        if os.path.isdir(d) and os.access(d, os.W_OK):
            return d
    return tempfile.gettempdir()


def run_one(name: str, repo: str) -> Dict[str, Any]:
    d = tempfile.mkdtemp(prefix='verif-refac-', dir=_scratch_base())
    try:
        shutil.copytree(os.path.join(repo, 'src', 'zeroconf'), os.path.join(d, 'src', 'zeroconf'),
                        ignore=shutil.ignore_patterns('__pycache__', '*.pyc', '*.so'))
        q = subprocess.run(['git', 'apply', '--whitespace=nowarn', os.path.join(STORE, name)], cwd=d, capture_output=True, text=True)
        if q.returncode:
            return {'id': name, 'ok': True, 'status': 'skipped (patch does not apply to this tree)', 'detail': ''}
        env = dict(os.environ)
        env['VERIF_EVIDENCE_DIR'] = os.path.join(d, 'evidence')
        env.pop('VERIF_TIER', None)
        p = subprocess.run([os.path.join(VERIF, 'check'), 'all', '--tier', 'quick', '--repo', d], capture_output=True, text=True, env=env, cwd=VERIF, timeout=1800)
        out = p.stdout + p.stderr
        bad = [l for l in out.splitlines() if l.startswith('VIOLATION') or l.startswith('ANALYSIS-ERROR') or l.lstrip().startswith('[C')]
        ok = p.returncode == 0 and not bad
        return {'id': name, 'ok': ok, 'status': f'exit {p.returncode}', 'detail': '\n'.join(bad[:12])}
    finally:
        shutil.rmtree(d, ignore_errors=True)


def main() -> int:
    ap = argparse.ArgumentParser()
    ap.add_argument('--id', default='')
    ap.add_argument('--repo', default='/repo')
    ap.add_argument('--jobs', type=int, default=6)
    a = ap.parse_args()
    names = sorted(n for n in os.listdir(STORE) if n.endswith('.diff') and a.id in n) if os.path.isdir(STORE) else []
    res: List[Dict[str, Any]] = []
    with concurrent.futures.ThreadPoolExecutor(max_workers=a.jobs) as ex:
        for r in ex.map(lambda n: run_one(n, a.repo), names):
            res.append(r)
            print(('ok   ' if r['ok'] else 'FAIL ') + r['id'] + ' ' + r['status'], flush=True)
            if not r['ok']:
                print('     ' + r['detail'].replace('\n', '\n     '))
    print(f"{sum(1 for r in res if r['ok'])}/{len(res)} refactorings left every check silent ({sum(1 for r in res if 'skipped' in r['status'])} skipped)")
    return 0 if all(r['ok'] for r in res) else 1


if __name__ == '__main__':
    sys.exit(main())

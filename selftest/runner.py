"""Self-test of the checkers: breaking variants must fire (exit 1, naming the
rule), behaviour-preserving twins must stay silent (exit 0).  Each variant is a
unique-text edit applied to a scratch copy of /repo/src (never under /repo or
/verif), compiled, and checked with `check <Cxx> --repo <scratch>`."""
from __future__ import annotations

import concurrent.futures
import os
import shutil
import subprocess
import sys
import tempfile
from typing import Any, Dict, List, Tuple

HERE = os.path.dirname(os.path.abspath(__file__))
VERIF = os.path.dirname(HERE)


def _scratch_base() -> str:
    return os.environ.get('TMPDIR') or '/var/tmp'


def apply_edits(root: str, edits: List[Tuple[str, str, str]]) -> None:
    for rel, old, new in edits:
        p = os.path.join(root, rel)
        with open(p, encoding='utf-8') as fh:
            s = fh.read()
        if s.count(old) != 1:
            raise RuntimeError(f'variant edit does not apply uniquely ({s.count(old)} matches) in {rel}: {old[:60]!r}')
        with open(p, 'w', encoding='utf-8') as fh:
            fh.write(s.replace(old, new))
        compile(s.replace(old, new), p, 'exec')  # must still compile


def run_variant(v: Dict[str, Any], repo: str) -> Dict[str, Any]:
    d = tempfile.mkdtemp(prefix='verif-scratch-', dir=_scratch_base())
    try:
        shutil.copytree(os.path.join(repo, 'src', 'zeroconf'), os.path.join(d, 'src', 'zeroconf'),
                        ignore=shutil.ignore_patterns('__pycache__', '*.pyc', '*.so'))
        try:
            if v.get('patch'):
                # a seeded change kept under /verif/seeded: anchored to the tree it was written against; when the
                # tree has moved on and the patch no longer applies the variant is skipped, not failed
                q = subprocess.run(['git', 'apply', '--whitespace=nowarn', v['patch']], cwd=d, capture_output=True, text=True)
                if q.returncode:
                    return {'id': v['id'], 'ok': True, 'status': 'skipped (patch does not apply to this tree)', 'expect': 'skip', 'detail': ''}
            else:
                apply_edits(d, v['edits'])
        except Exception as e:  # noqa: BLE001
            return {'id': v['id'], 'ok': False, 'status': 'edit-failed', 'detail': str(e)[:300]}
        env = dict(os.environ)
        env['VERIF_EVIDENCE_DIR'] = os.path.join(d, 'evidence')
        env.pop('VERIF_TIER', None)
        p = subprocess.run(
            [os.path.join(VERIF, 'check'), v['property'], '--tier', 'quick', '--repo', d],
            capture_output=True, text=True, env=env, cwd=VERIF, timeout=600,
        )
        out = p.stdout + p.stderr
        if v['expect'] == 'fire':
            named = v.get('rule', '') in out and all(n in out for n in v.get('names', []))
            ok = p.returncode == 1 and 'VIOLATION property=' + v['property'] in out and named
        else:
            ok = p.returncode == 0 and 'VIOLATION' not in out
        return {'id': v['id'], 'ok': ok, 'status': f'exit {p.returncode}', 'expect': v['expect'],
                'detail': '' if ok else out[-1500:]}
    finally:
        shutil.rmtree(d, ignore_errors=True)


def load_variants() -> List[Dict[str, Any]]:
    sys.path.insert(0, VERIF)
    from selftest import variants

    return variants.VARIANTS


def seeded_variants(prop: str = '') -> List[Dict[str, Any]]:
    """The independently written breaking changes kept under /verif/seeded, as fire-variants of their property."""
    import json

    out = []
    root = os.path.join(VERIF, 'seeded')
    for name in sorted(os.listdir(root)) if os.path.isdir(root) else []:
        pf, mf = os.path.join(root, name, 'patch.diff'), os.path.join(root, name, 'meta.json')
        if not (os.path.exists(pf) and os.path.exists(mf)):
            continue
        meta = json.load(open(mf))
        if not meta.get('kept') or (prop and meta['property'] != prop):
            continue
        out.append({'id': 'seeded-' + name, 'property': meta['property'], 'rule': meta['property'] + '.', 'patch': pf, 'expect': 'fire', 'names': []})
    return out


def run_many(vs: List[Dict[str, Any]], repo: str, jobs: int = 16) -> List[Dict[str, Any]]:
    with concurrent.futures.ThreadPoolExecutor(max_workers=jobs) as ex:
        return list(ex.map(lambda v: run_variant(v, repo), vs))


def refactoring_variants(prop: str) -> List[Dict[str, Any]]:
    """The behaviour-preserving refactorings written by independent sub-agents (selftest/refactorings/*.diff), as silent
    variants for `prop`: every one of them must leave the property's check silent."""
    store = os.path.join(HERE, 'refactorings')
    if not os.path.isdir(store):
        return []
    return [{'id': f'refactoring-{n[:-5]}', 'property': prop, 'rule': '', 'patch': os.path.join(store, n), 'expect': 'silent', 'names': []}
            for n in sorted(os.listdir(store)) if n.endswith('.diff')]


def run_for_property(prop: str, repo: str) -> Dict[str, Any]:
    from sa import AnalysisError

    vs = [v for v in load_variants() if v['property'] == prop and not v.get('needs_fix_absent')] + seeded_variants(prop) + refactoring_variants(prop)
    res = run_many(vs, repo)
    bad = [r for r in res if not r['ok']]
    summary = {
        'variants': len(res),
        'breaking_fired': sum(1 for r in res if r['ok'] and r.get('expect') == 'fire'),
        'twins_silent': sum(1 for r in res if r['ok'] and r.get('expect') == 'silent'),
        'seeded_changes_fired': sum(1 for r in res if r['ok'] and r['id'].startswith('seeded-') and r.get('expect') == 'fire'),
        'seeded_changes_skipped': sum(1 for r in res if r.get('expect') == 'skip'),
        'failed': [r['id'] + ': ' + r['status'] for r in bad],
    }
    if bad:
        for r in bad:
            print(f"SELFTEST-FAIL {r['id']} ({r['status']}): {r['detail'][-400:]}")
        raise AnalysisError(f'self-test of the {prop} rules failed for {len(bad)} variant(s): ' + ', '.join(r['id'] for r in bad))
    return summary


if __name__ == '__main__':
    import argparse

    ap = argparse.ArgumentParser()
    ap.add_argument('--repo', default='/repo')
    ap.add_argument('--prop', default='')
    ap.add_argument('--id', default='')
    ap.add_argument('--silent-everywhere', action='store_true', help='run every behaviour-preserving variant against the checks of ALL properties')
    a = ap.parse_args()
    if a.silent_everywhere:
        props = ['C%02d' % i for i in range(1, 21) if i != 7]
        vs = [dict(v, property=p, id=f"{v['id']}@{p}") for v in load_variants() if v['expect'] == 'silent' and (not a.id or a.id in v['id']) for p in props if p not in v.get('not_for', [])]
        res = run_many(vs, a.repo)
        for r in res:
            if not r['ok']:
                print('FAIL ' + r['id'] + ' ' + r['status'])
                print('     ' + r['detail'][-800:].replace('\n', '\n     '))
        print(f"{sum(1 for r in res if r['ok'])}/{len(res)} (twin, property) pairs silent")
        sys.exit(0 if all(r['ok'] for r in res) else 1)
    vs = [v for v in load_variants() + seeded_variants() if (not a.prop or v['property'] == a.prop) and (not a.id or a.id in v['id'])]
    res = run_many(vs, a.repo)
    for r in res:
        print(('ok   ' if r['ok'] else 'FAIL ') + r['id'] + ' ' + r['status'])
        if not r['ok']:
            print('     ' + r['detail'][-800:].replace('\n', '\n     '))
    print(f"{sum(1 for r in res if r['ok'])}/{len(res)} variants behaved as expected")
    sys.exit(0 if all(r['ok'] for r in res) else 1)

"""Catalogue of breaking variants (must fire) and behaviour-preserving twins
(must stay silent).  One entry = one scratch-copy edit."""
from typing import Any, Dict, List

VARIANTS: List[Dict[str, Any]] = []


def V(id: str, prop: str, rule: str, file: str, old: str, new: str, expect: str = 'fire', names: Any = (), more: Any = (), not_for: Any = ()) -> None:
    edits = [('src/zeroconf/' + file, old, new)] + [('src/zeroconf/' + f, o, n) for f, o, n in more]
    VARIANTS.append({'id': id, 'property': prop, 'rule': rule, 'edits': edits, 'expect': expect, 'names': list(names), 'not_for': list(not_for)})


DNS = '_dns.py'
# ---------------------------------------------------------------- C20
V('c20-eq-ttl', 'C20', 'C20.CONGRUENCE', DNS,
  "return self.text == other.text and self._dns_entry_matches(other)",
  "return self.text == other.text and self.ttl == other.ttl and self._dns_entry_matches(other)", names=['DNSText'])
V('c20-hash-alias-raw', 'C20', 'C20.CONGRUENCE', DNS,
  "self._hash = hash((self.key, type_, self.class_, self.alias_key))",
  "self._hash = hash((self.key, type_, self.class_, self.alias))", names=['DNSPointer'])
V('c20-hash-drop-scope', 'C20', 'C20.CONGRUENCE', DNS,
  "self._hash = hash((self.key, type_, self.class_, address, scope_id))",
  "self._hash = hash((self.key, type_, self.class_, address))", names=['DNSAddress'])
V('c20-setter-alias-key', 'C20', 'C20.CONGRUENCE', DNS,
  "    def __repr__(self) -> str:\n        \"\"\"String representation\"\"\"\n        return self.to_string(self.alias)",
  "    def rename(self, alias: str) -> None:\n        self.alias = alias\n        self.alias_key = alias.lower()\n\n    def __repr__(self) -> str:\n        \"\"\"String representation\"\"\"\n        return self.to_string(self.alias)", names=['alias_key'])
V('c20-isinstance-base', 'C20', 'C20.CONGRUENCE', DNS,
  "return isinstance(other, DNSText) and self._eq(other)", "return isinstance(other, DNSRecord) and self._eq(other)", names=['DNSText'])
V('c20-hash-raw-class', 'C20', 'C20.CONGRUENCE', DNS,
  "self._hash = hash((self.key, type_, self.class_, text))", "self._hash = hash((self.key, type_, class_, text))", names=['DNSText'])
V('c20-srv-server-raw-eq', 'C20', 'C20.CONGRUENCE', DNS,
  "and self.server_key == other.server_key", "and self.server == other.server", names=['DNSService'])
V('c20-mask-dropped', 'C20', 'C20.CONGRUENCE', DNS,
  "self.class_ = class_ & _CLASS_MASK", "self.class_ = class_", names=['_set_class'])
V('c20-key-not-lowered', 'C20', 'C20.CONGRUENCE', DNS,
  "self.key = name.lower()", "self.key = name", names=['key'])
V('c20-question-hash-name', 'C20', 'C20.CONGRUENCE', DNS,
  "self._hash = hash((self.key, type_, self.class_))", "self._hash = hash((self.name, type_, self.class_))", names=['DNSQuestion'])
# twins
V('c20-twin-reorder-eq', 'C20', 'C20.CONGRUENCE', DNS,
  "return self.text == other.text and self._dns_entry_matches(other)",
  "return self._dns_entry_matches(other) and other.text == self.text", expect='silent')
V('c20-twin-hash-selffield', 'C20', 'C20.CONGRUENCE', DNS,
  "self._hash = hash((self.key, type_, self.class_, text))", "self._hash = hash((self.key, self.type, self.class_, self.text))", expect='silent')
V('c20-twin-mask-literal', 'C20', 'C20.CONGRUENCE', DNS,
  "self.class_ = class_ & _CLASS_MASK", "self.class_ = 0x7FFF & class_", expect='silent')

CORE = '_core.py'
# ---------------------------------------------------------------- C17
V('c17-single-registry-snapshot', 'C17', 'C17.GOODBYE', CORE,
  "        while True:\n            out = self.generate_unregister_all_services()\n            if not out:\n                return\n            for i in range(_REGISTER_BROADCASTS):\n                if i != 0:\n                    await asyncio.sleep(millis_to_seconds(_UNREGISTER_TIME))\n                self.async_send(out)\n",
  "        out = self.generate_unregister_all_services()\n        if not out:\n            return\n        for i in range(_REGISTER_BROADCASTS):\n            if i != 0:\n                await asyncio.sleep(millis_to_seconds(_UNREGISTER_TIME))\n            self.async_send(out)\n")
V('c17-twin-sleep-after-each-goodbye', 'C17', 'C17.GOODBYE', CORE,
  "            for i in range(_REGISTER_BROADCASTS):\n                if i != 0:\n                    await asyncio.sleep(millis_to_seconds(_UNREGISTER_TIME))\n                self.async_send(out)\n",
  "            for i in range(_REGISTER_BROADCASTS):\n                self.async_send(out)\n                await asyncio.sleep(millis_to_seconds(_UNREGISTER_TIME))\n", expect='silent')  # the registry is examined again after the trailing wait
V('c17-suspend-before-gate', 'C17', 'C17.GOODBYE', 'asyncio.py',
  "        await self.async_unregister_all_services()\n        await self.zeroconf._async_close()", "        await self.async_unregister_all_services()\n        await asyncio.sleep(0)\n        await self.zeroconf._async_close()")
V('c17-second-sendto', 'C17', 'C17.GATE', '_handlers/multicast_outgoing_queue.py',
  "            zc.async_send(construct_outgoing_multicast_answers(answers))",
  "            out = construct_outgoing_multicast_answers(answers)\n            for packet in out.packets():\n                for t in zc.engine.senders:\n                    t.transport.sendto(packet, ('224.0.0.251', 5353))",
  names=['async_ready'])
V('c17-gate-after-loop', 'C17', 'C17.GATE', CORE,
  "        if self.done:\n            return\n\n        # If no transport is specified, we send to all the ones",
  "        # If no transport is specified, we send to all the ones", names=['async_send_with_transport'])
V('c17-done-cleared-in-start', 'C17', 'C17.GATE', CORE,
  "        self.loop = get_running_loop()\n        if self.loop:",
  "        self.loop = get_running_loop()\n        self.done = False\n        if self.loop:", names=['Zeroconf.start'])
V('c17-close-skips-_close', 'C17', 'C17.GATE', CORE,
  "            else:\n                self.unregister_all_services()\n        self._close()\n        self.engine.close()",
  "            else:\n                self.unregister_all_services()\n                self._close()\n        self.engine.close()", names=['Zeroconf.close'])
V('c17-gate-before-goodbye', 'C17', 'C17.GOODBYE', CORE,
  "        assert self.loop is not None\n        if self.loop.is_running():\n            if self.loop == get_running_loop():",
  "        assert self.loop is not None\n        self._close()\n        if self.loop.is_running():\n            if self.loop == get_running_loop():", names=['Zeroconf.close'])
V('c17-async-close-order', 'C17', 'C17.GOODBYE', 'asyncio.py',
  "        await self.async_remove_all_service_listeners()\n        await self.async_unregister_all_services()\n        await self.zeroconf._async_close()  # pylint: disable=protected-access",
  "        await self.async_remove_all_service_listeners()\n        await self.zeroconf._async_close()  # pylint: disable=protected-access\n        await self.async_unregister_all_services()", names=['async_close'])
V('c17-cleanup-timer-not-cancelled', 'C17', 'C17.TIMERS', '_engine.py',
  "        assert self._cleanup_timer is not None\n        self._cleanup_timer.cancel()\n", "", names=['_async_cache_cleanup'])
V('c17-scheduler-gate-and-cancel-dropped', 'C17', 'C17.TIMERS', '_services/browser.py',
  "        if self._next_run is not None:\n            self._next_run.cancel()\n            self._next_run = None\n",
  "        self._next_run = None\n", names=['_next_run'])
V('c17-lookup-no-finally', 'C17', 'C17.LISTENER', '_services/info.py',
  "        finally:\n            zc.async_remove_listener(self)\n\n        return True",
  "        except asyncio.CancelledError:\n            raise\n        zc.async_remove_listener(self)\n        return True", names=['async_request'])
V('c17-cancel-keeps-listener', 'C17', 'C17.LISTENER', '_services/browser.py',
  "        self.query_scheduler.stop()\n        self.zc.async_remove_listener(self)\n",
  "        self.query_scheduler.stop()\n        if not self.zc.done:\n            self.zc.async_remove_listener(self)\n", names=['_async_cancel'])
V('c17-close-not-idempotent', 'C17', 'C17.GOODBYE', CORE,
  "        if self.done:\n            return\n        self.remove_all_service_listeners()",
  "        self.remove_all_service_listeners()", names=['_close'])
# twins
V('c17-twin-gate-nested', 'C17', 'C17.GATE', CORE,
  "        if self.done:\n            return\n\n        # If no transport is specified, we send to all the ones\n        # with the same address family\n        transports = [transport] if transport else self.engine.senders\n        log_debug = log.isEnabledFor(logging.DEBUG)\n",
  "        if self.done is True:\n            return None\n        transports = [transport] if transport else self.engine.senders\n        log_debug = log.isEnabledFor(logging.DEBUG)\n", expect='silent')
V('c17-twin-stop-reordered', 'C17', 'C17.LISTENER', '_services/browser.py',
  "        if self._next_run is not None:\n            self._next_run.cancel()\n            self._next_run = None\n        self._next_scheduled_for_alias.clear()\n        self._query_heap.clear()",
  "        self._query_heap.clear()\n        self._next_scheduled_for_alias.clear()\n        timer = self._next_run\n        if timer is not None:\n            self._next_run.cancel()\n            self._next_run = None", expect='silent')

RMF = '_handlers/record_manager.py'
# ---------------------------------------------------------------- C06
V('c06-add-before-notify', 'C06', 'C06.ORDER', RMF,
  "        if updates:\n            self.async_updates(now, updates)\n        # The cache adds must be processed AFTER we trigger",
  "        # The cache adds must be processed AFTER we trigger", names=['effect sequence'],
  more=[(RMF, "        new = False\n        if other_adds or address_adds:\n            new = cache.async_add_records(address_adds)\n            if cache.async_add_records(other_adds):\n                new = True\n",
         "        new = False\n        if other_adds or address_adds:\n            new = cache.async_add_records(address_adds)\n            if cache.async_add_records(other_adds):\n                new = True\n        if updates:\n            self.async_updates(now, updates)\n")])
V('c06-remove-before-add', 'C06', 'C06.ORDER', RMF,
  "        new = False\n        if other_adds or address_adds:",
  "        if removes:\n            cache.async_remove_records(removes)\n            removes = set()\n        new = False\n        if other_adds or address_adds:")
V('c06-complete-before-remove', 'C06', 'C06.ORDER', RMF,
  "        if removes:\n            cache.async_remove_records(removes)\n        if updates:\n            self.async_updates_complete(new)",
  "        if updates:\n            self.async_updates_complete(new)\n        if removes:\n            cache.async_remove_records(removes)")
V('c06-notify-in-loop', 'C06', 'C06.ORDER', RMF,
  "                updates.append(RecordUpdate(record, maybe_entry))\n            # This is likely a goodbye",
  "                updates.append(RecordUpdate(record, maybe_entry))\n                self.async_updates(now, updates)\n            # This is likely a goodbye")
V('c06-add-without-update', 'C06', 'C06.ORDER', RMF,
  "                    else:\n                        other_adds.append(record)\n                updates.append(RecordUpdate(record, maybe_entry))",
  "                    else:\n                        other_adds.append(record)\n                if maybe_entry is None or record.ttl != maybe_entry.ttl:\n                    updates.append(RecordUpdate(record, maybe_entry))")
V('c06-previous-none', 'C06', 'C06.ORDER', RMF,
  "                updates.append(RecordUpdate(record, maybe_entry))\n            # This is likely a goodbye",
  "                updates.append(RecordUpdate(record, None))\n            # This is likely a goodbye")
V('c06-addr-after-other', 'C06', 'C06.ORDER', RMF,
  "            new = cache.async_add_records(address_adds)\n            if cache.async_add_records(other_adds):",
  "            new = cache.async_add_records(other_adds)\n            if cache.async_add_records(address_adds):")
V('c06-complete-only-if-new', 'C06', 'C06.ORDER', RMF,
  "        if updates:\n            self.async_updates_complete(new)", "        if updates and new:\n            self.async_updates_complete(new)")
V('c06-iterate-live-set', 'C06', 'C06.SNAPSHOT', RMF,
  "        for listener in self.listeners.copy():\n            listener.async_update_records(self.zc, now, records)",
  "        for listener in self.listeners:\n            listener.async_update_records(self.zc, now, records)")
V('c06-removes-list', 'C06', 'C06.DEDUP', RMF,
  "        removes: Set[DNSRecord] = set()", "        removes: List[DNSRecord] = []",
  more=[(RMF, "                removes.add(record)", "                removes.append(record)")])
V('c06-floor-le', 'C06', 'C06.FLOORFLUSH', RMF,
  "record_ttl < _DNS_PTR_MIN_TTL:", "record_ttl <= _DNS_PTR_MIN_TTL:")
V('c06-floor-const', 'C06', 'C06.FLOORFLUSH', 'const.py',
  "_DNS_PTR_MIN_TTL = _DNS_OTHER_TTL / 4", "_DNS_PTR_MIN_TTL = _DNS_OTHER_TTL / 5")
V('c06-floor-zero-ttl', 'C06', 'C06.FLOORFLUSH', RMF,
  "if record_ttl and record_type == _TYPE_PTR and record_ttl < _DNS_PTR_MIN_TTL:", "if record_type == _TYPE_PTR and record_ttl < _DNS_PTR_MIN_TTL:")
V('c06-floor-resets-created', 'C06', 'C06.FLOORFLUSH', RMF,
  "record.set_created_ttl(record.created, _DNS_PTR_MIN_TTL)", "record.set_created_ttl(now, _DNS_PTR_MIN_TTL)")
V('c06-flush-ge', 'C06', 'C06.FLOORFLUSH', '_cache.py',
  "                    (now - created_double > _ONE_SECOND)\n", "                    (now - created_double >= _ONE_SECOND)\n")
V('c06-flush-ignores-datagram', 'C06', 'C06.FLOORFLUSH', '_cache.py',
  "                    and record not in answers_rrset\n", "")
V('c06-flush-immediate', 'C06', 'C06.FLOORFLUSH', '_cache.py',
  "record.set_created_ttl(now, 1)", "record.set_created_ttl(now, 0)")
V('c06-flush-all-records', 'C06', 'C06.FLOORFLUSH', RMF,
  "            if record.unique:  # https://tools.ietf.org/html/rfc6762#section-10.2\n                unique_types.add(",
  "            if True:\n                unique_types.add(")
# twins
V('c06-twin-len-tests', 'C06', 'C06.ORDER', RMF,
  "        if updates:\n            self.async_updates(now, updates)", "        if len(updates) > 0:\n            self.async_updates(now, updates)", expect='silent')
V('c06-twin-flip-compare', 'C06', 'C06.FLOORFLUSH', RMF,
  "record_ttl < _DNS_PTR_MIN_TTL:", "_DNS_PTR_MIN_TTL > record_ttl:", expect='silent')
V('c06-twin-list-copy', 'C06', 'C06.SNAPSHOT', RMF,
  "        for listener in self.listeners.copy():\n            listener.async_update_records_complete()",
  "        for listener in list(self.listeners):\n            listener.async_update_records_complete()", expect='silent')
V('c06-twin-flush-demorgan', 'C06', 'C06.FLOORFLUSH', '_cache.py',
  "                    (now - created_double > _ONE_SECOND)\n                    and record not in answers_rrset\n", "                    not (now - created_double <= _ONE_SECOND or record in answers_rrset)\n", expect='silent')

BR = '_services/browser.py'
# ---------------------------------------------------------------- C04
V('c04-removed-overwrites-added', 'C04', 'C04.PRECEDENCE', BR,
  "                state_change is SERVICE_STATE_CHANGE_REMOVED\n                and self._pending_handlers.get(key) is not SERVICE_STATE_CHANGE_ADDED\n",
  "                state_change is SERVICE_STATE_CHANGE_REMOVED\n")
V('c04-updated-overwrites', 'C04', 'C04.PRECEDENCE', BR,
  "or (state_change is SERVICE_STATE_CHANGE_UPDATED and key not in self._pending_handlers)",
  "or (state_change is SERVICE_STATE_CHANGE_UPDATED)")
V('c04-added-after-removed-dropped', 'C04', 'C04.PRECEDENCE', BR,
  "            state_change is SERVICE_STATE_CHANGE_ADDED\n            or (",
  "            (state_change is SERVICE_STATE_CHANGE_ADDED and key not in self._pending_handlers)\n            or (")
V('c04-key-swapped', 'C04', 'C04.PRECEDENCE', BR,
  "            self._pending_handlers[key] = state_change", "            self._pending_handlers[(type_, name)] = state_change")
V('c04-added-on-refresh', 'C04', 'C04.CLASSIFY', BR,
  "                    else:\n                        self.query_scheduler.reschedule_ptr_first_refresh(pointer)\n                continue",
  "                    else:\n                        self._enqueue_callback(SERVICE_STATE_CHANGE_ADDED, type_, pointer.alias)\n                        self.query_scheduler.reschedule_ptr_first_refresh(pointer)\n                continue")
V('c04-expired-new-ignored', 'C04', 'C04.CLASSIFY', BR,
  "                    if old_record is None:\n                        self._enqueue_callback(SERVICE_STATE_CHANGE_ADDED",
  "                    if old_record is None and not pointer.is_expired(now):\n                        self._enqueue_callback(SERVICE_STATE_CHANGE_ADDED")
V('c04-removed-keeps-schedule', 'C04', 'C04.CLASSIFY', BR,
  "                        self._enqueue_callback(SERVICE_STATE_CHANGE_REMOVED, type_, pointer.alias)\n                        self.query_scheduler.cancel_ptr_refresh(pointer)",
  "                        self._enqueue_callback(SERVICE_STATE_CHANGE_REMOVED, type_, pointer.alias)")
V('c04-fire-before-cache', 'C04', 'C04.AFTERCACHE', BR,
  "                    if old_record is None:\n                        self._enqueue_callback(SERVICE_STATE_CHANGE_ADDED, type_, pointer.alias)\n",
  "                    if old_record is None:\n                        self._fire_service_state_changed_event(((pointer.alias, type_), SERVICE_STATE_CHANGE_ADDED))\n")
V('c04-flush-no-clear', 'C04', 'C04.FLUSH', BR,
  "        for pending in self._pending_handlers.items():\n            self.queue.put(pending)\n        self._pending_handlers.clear()",
  "        for pending in self._pending_handlers.items():\n            self.queue.put(pending)")
V('c04-flush-clear-inside', 'C04', 'C04.FLUSH', BR,
  "        for pending in self._pending_handlers.items():\n            self._fire_service_state_changed_event(pending)\n        self._pending_handlers.clear()",
  "        for pending in list(self._pending_handlers.items()):\n            self._pending_handlers.clear()\n            self._fire_service_state_changed_event(pending)")
# twins
V('c04-twin-precedence-rewrite', 'C04', 'C04.PRECEDENCE', BR,
  "        if (\n            state_change is SERVICE_STATE_CHANGE_ADDED\n            or (\n                state_change is SERVICE_STATE_CHANGE_REMOVED\n                and self._pending_handlers.get(key) is not SERVICE_STATE_CHANGE_ADDED\n            )\n            or (state_change is SERVICE_STATE_CHANGE_UPDATED and key not in self._pending_handlers)\n        ):\n            self._pending_handlers[key] = state_change",
  "        current = self._pending_handlers.get(key)\n        if state_change is SERVICE_STATE_CHANGE_ADDED:\n            self._pending_handlers[key] = state_change\n            return\n        if state_change is SERVICE_STATE_CHANGE_REMOVED:\n            if current is not SERVICE_STATE_CHANGE_ADDED:\n                self._pending_handlers[key] = state_change\n            return\n        if current is None:\n            self._pending_handlers[key] = SERVICE_STATE_CHANGE_UPDATED", expect='silent')
V('c04-twin-classify-reordered', 'C04', 'C04.CLASSIFY', BR,
  "                    if old_record is None:\n                        self._enqueue_callback(SERVICE_STATE_CHANGE_ADDED, type_, pointer.alias)\n                        self.query_scheduler.reschedule_ptr_first_refresh(pointer)\n                    elif pointer.is_expired(now):\n                        self._enqueue_callback(SERVICE_STATE_CHANGE_REMOVED, type_, pointer.alias)\n                        self.query_scheduler.cancel_ptr_refresh(pointer)\n                    else:\n                        self.query_scheduler.reschedule_ptr_first_refresh(pointer)",
  "                    if old_record is not None and pointer.is_expired(now):\n                        self.query_scheduler.cancel_ptr_refresh(pointer)\n                        self._enqueue_callback(SERVICE_STATE_CHANGE_REMOVED, type_, pointer.alias)\n                        continue\n                    if old_record is None:\n                        self._enqueue_callback(SERVICE_STATE_CHANGE_ADDED, type_, pointer.alias)\n                    self.query_scheduler.reschedule_ptr_first_refresh(pointer)", expect='silent')

CA = '_cache.py'
# ---------------------------------------------------------------- C05
# C05.LOOKUPS
V('c05-lookup-all-by-details-or', 'C05', 'C05.LOOKUPS', CA,
  "        return [entry for entry in list(records) if type_ == entry.type and class_ == entry.class_]",
  "        return [entry for entry in list(records) if type_ == entry.type or class_ == entry.class_]", names=['get_all_by_details'])
V('c05-lookup-by-details-ignores-class', 'C05', 'C05.LOOKUPS', CA,
  "            if type_ == cached_entry.type and class_ == cached_entry.class_:\n                return cached_entry",
  "            if type_ == cached_entry.type:\n                return cached_entry", names=['get_by_details'])
V('c05-lookup-add-records-short-circuit', 'C05', 'C05.LOOKUPS', CA,
  "            if self._async_add(entry):\n                new = True", "            new = new or self._async_add(entry)", names=['async_add_records'])
V('c05-lookup-remove-records-first-only', 'C05', 'C05.LOOKUPS', CA,
  "        for entry in entries:\n            self._async_remove(entry)", "        for entry in entries:\n            self._async_remove(entry)\n            break", names=['async_remove_records'])
V('c05-lookup-entries-with-server-none', 'C05', 'C05.LOOKUPS', CA,
  "        return self.service_cache.get(name.lower()) or {}", "        return self.service_cache.get(name.lower())", names=['async_entries_with_server'])
V('c05-lookup-conflict-ignores-expiry', 'C05', 'C05.LOOKUPS', CA,
  "                and not record.is_expired(now)\n", "", names=['current_entry_with_name_and_alias'])
V('c05-lookup-get-shared-by-type-only', 'C05', 'C05.LOOKUPS', CA,
  "            if entry.__eq__(cached_entry):", "            if entry.type == cached_entry.type:", names=['DNSCache.get'])
V('c05-lookup-srv-not-indexed-by-host', 'C05', 'C05.LOOKUPS', CA,
  "            service_store[record] = record\n", "            pass\n", names=['_async_add'])
V('c05-lookup-twin-loop-append', 'C05', 'C05.LOOKUPS', CA,
  "        return [entry for entry in list(records) if type_ == entry.type and class_ == entry.class_]",
  "        out = []\n        for entry in list(records):\n            if entry.class_ != class_ or entry.type != type_:\n                continue\n            out.append(entry)\n        return out", expect='silent')
V('c05-lookup-twin-get-eq-operator', 'C05', 'C05.LOOKUPS', CA,
  "            if entry.__eq__(cached_entry):", "            if entry == cached_entry:", expect='silent')
V('c05-lookup-twin-entries-default', 'C05', 'C05.LOOKUPS', CA,
  "        return self.cache.get(name.lower()) or {}", "        bucket = self.cache.get(name.lower())\n        return {} if bucket is None else bucket", expect='silent')
V('c05-lookup-twin-add-records-any', 'C05', 'C05.LOOKUPS', CA,
  "            if self._async_add(entry):\n                new = True", "            new = self._async_add(entry) or new", expect='silent')
V('c05-kv-predelete-removed', 'C05', 'C05.KV', CA,
  "        store.pop(record, None)\n        store[record] = record", "        store[record] = record", names=['_async_add'])
V('c05-kv-service-predelete-removed', 'C05', 'C05.KV', CA,
  "            service_store.pop(record, None)\n", "", names=['_async_add'])
V('c05-kv-conditional-wrong', 'C05', 'C05.KV', CA,
  "        store.pop(record, None)\n        store[record] = record", "        if record not in store:\n            store.pop(record, None)\n        store[record] = record", names=['_async_add'])
V('c05-remove-skips-service-index', 'C05', 'C05.TWOINDEX', CA,
  "        if isinstance(record, DNSService):\n            _remove_key(self.service_cache, record.server_key, record)\n", "")
V('c05-remove-uses-server', 'C05', 'C05.TWOINDEX', CA,
  "_remove_key(self.service_cache, record.server_key, record)", "_remove_key(self.service_cache, record.server, record)")
V('c05-empty-bucket-left', 'C05', 'C05.TWOINDEX', CA,
  "    del cache[key][record]\n    if not cache[key]:\n        del cache[key]", "    del cache[key][record]")
V('c05-raw-name-lookup', 'C05', 'C05.KEYS', CA,
  "        return self.cache.get(name.lower()) or {}", "        return self.cache.get(name) or {}")
V('c05-raw-server-lookup', 'C05', 'C05.KEYS', CA,
  "        return list(self.service_cache.get(server.lower(), []))", "        return list(self.service_cache.get(server, []))")
V('c05-browser-writes-ttl', 'C05', 'C05.OWN', '_services/browser.py',
  "                    elif pointer.is_expired(now):\n                        self._enqueue_callback(SERVICE_STATE_CHANGE_REMOVED",
  "                    elif pointer.is_expired(now):\n                        old_record.ttl = 0\n                        self._enqueue_callback(SERVICE_STATE_CHANGE_REMOVED")
V('c05-info-mutates-bucket', 'C05', 'C05.OWN', '_services/browser.py',
  "                names = {service.name for service in cache.async_entries_with_server(record.name)}",
  "                bucket = cache.async_entries_with_server(record.name)\n                names = {service.name for service in bucket}\n                bucket.pop(record, None)")
V('c05-new-reset-ttl-caller', 'C05', 'C05.OWN', '_handlers/query_handler.py',
  "        maybe_entry = self._cache.async_get_unique(record)\n        return bool(maybe_entry is not None and maybe_entry.is_recent(self._now))",
  "        maybe_entry = self._cache.async_get_unique(record)\n        if maybe_entry is not None and record.ttl:\n            maybe_entry.reset_ttl(record)\n        return bool(maybe_entry is not None and maybe_entry.is_recent(self._now))")
V('c05-purge-stale', 'C05', 'C05.PURGE', CA,
  "for record in records if record.is_expired(now)]", "for record in records if record.is_stale(now)]")
V('c05-purge-returns-other', 'C05', 'C05.PURGE', CA,
  "        self.async_remove_records(expired)\n        return expired", "        self.async_remove_records(expired)\n        return [record for record in expired if record.ttl]")
V('c05-cleanup-reports-none', 'C05', 'C05.PURGE', '_engine.py',
  "[RecordUpdate(record, record) for record in self.zc.cache.async_expire(now)]", "[RecordUpdate(record, None) for record in self.zc.cache.async_expire(now)]")
V('c05-known-answers-expired', 'C05', 'C05.PURGE', '_services/browser.py',
  "            if not record.is_stale(now_millis)", "            if not record.is_expired(now_millis)")
V('c05-expired-lt', 'C05', 'C05.LIFETIME', '_dns.py',
  "return self.created + (_EXPIRE_FULL_TIME_MS * self.ttl) <= now", "return self.created + (_EXPIRE_FULL_TIME_MS * self.ttl) < now")
V('c05-stale-750', 'C05', 'C05.LIFETIME', '_dns.py', "_EXPIRE_STALE_TIME_MS = 500", "_EXPIRE_STALE_TIME_MS = 750")
V('c05-recent-ge', 'C05', 'C05.LIFETIME', '_dns.py',
  "return self.created + (_RECENT_TIME_MS * self.ttl) > now", "return self.created + (_RECENT_TIME_MS * self.ttl) >= now")
V('c05-expiration-percent', 'C05', 'C05.LIFETIME', '_dns.py',
  "return self.created + (percent * self.ttl * 10)", "return self.created + (percent * self.ttl * 100)")
V('c05-remaining-negative', 'C05', 'C05.LIFETIME', '_dns.py',
  "return 0 if remain < 0 else remain", "return remain")
# twins
V('c05-twin-expired-flipped', 'C05', 'C05.LIFETIME', '_dns.py',
  "return self.created + (_EXPIRE_FULL_TIME_MS * self.ttl) <= now", "return now >= self.ttl * 1000 + self.created", expect='silent')
V('c05-twin-remaining-max', 'C05', 'C05.LIFETIME', '_dns.py',
  "return 0 if remain < 0 else remain", "return max(0, remain)", expect='silent')
V('c05-twin-kv-delete-form', 'C05', 'C05.KV', CA,
  "        store.pop(record, None)\n        store[record] = record", "        if record in store:\n            del store[record]\n        store[record] = record", expect='silent')
V('c05-twin-purge-renamed', 'C05', 'C05.PURGE', CA,
  "        expired = [record for records in self.cache.values() for record in records if record.is_expired(now)]\n        self.async_remove_records(expired)\n        return expired",
  "        gone = [rec for bucket in self.cache.values() for rec in bucket if rec.is_expired(now)]\n        self.async_remove_records(gone)\n        return gone", expect='silent')

RG = '_services/registry.py'
QHF = '_handlers/query_handler.py'
INF = '_services/info.py'
# ---------------------------------------------------------------- C03
V('c03-empty-bucket-left', 'C03', 'C03.INDEX', RG,
  "        record_list.remove(name)\n        if not record_list:\n            del records[key]", "        record_list.remove(name)")
V('c03-remove-forgets-servers', 'C03', 'C03.INDEX', RG,
  "            self._remove_from_index(self.servers, old_service_info.server_key, info.key)\n", "")
V('c03-remove-type-raw', 'C03', 'C03.INDEX', RG,
  "self._remove_from_index(self.types, old_service_info.type.lower(), info.key)", "self._remove_from_index(self.types, old_service_info.type, info.key)")
V('c03-has-entries-stale', 'C03', 'C03.INDEX', RG,
  "        self.has_entries = bool(self._services)", "        self.has_entries = True")
V('c03-server-lookup-raw', 'C03', 'C03.KEYS', QHF,
  "services = self.registry.async_get_infos_server(question_lower_name)", "services = self.registry.async_get_infos_server(name)")
V('c03-instance-lookup-raw', 'C03', 'C03.KEYS', QHF,
  "service = self.registry.async_get_info_name(question_lower_name)", "service = self.registry.async_get_info_name(question.name)")
V('c03-enum-compare-raw', 'C03', 'C03.KEYS', QHF,
  "if type_ == _TYPE_PTR and question_lower_name == _SERVICE_TYPE_ENUMERATION_NAME:", "if type_ == _TYPE_PTR and name == _SERVICE_TYPE_ENUMERATION_NAME:")
V('c03-add-type-raw', 'C03', 'C03.KEYS', RG,
  "self.types.setdefault(info.type.lower(), []).append(info.key)", "self.types.setdefault(info.type, []).append(info.key)")
V('c03-any-skips-host', 'C03', 'C03.DISPATCH', QHF,
  "        if type_ in (_TYPE_A, _TYPE_AAAA, _TYPE_ANY):", "        if type_ in (_TYPE_A, _TYPE_AAAA):")
V('c03-nsec-answers-host', 'C03', 'C03.DISPATCH', QHF,
  "        if type_ in (_TYPE_A, _TYPE_AAAA, _TYPE_ANY):", "        if type_ in (_TYPE_A, _TYPE_AAAA, _TYPE_ANY, _TYPE_NSEC):")
V('c03-txt-gets-srv', 'C03', 'C03.DISPATCH', QHF,
  "                if type_ in (_TYPE_SRV, _TYPE_ANY):\n                    strategies.append(", "                if type_ in (_TYPE_SRV, _TYPE_TXT, _TYPE_ANY):\n                    strategies.append(")
V('c03-enum-falls-through', 'C03', 'C03.DISPATCH', QHF,
  "                        question, _ANSWER_STRATEGY_SERVICE_TYPE_ENUMERATION, types, _EMPTY_SERVICES_LIST\n                    )\n                )\n            return strategies",
  "                        question, _ANSWER_STRATEGY_SERVICE_TYPE_ENUMERATION, types, _EMPTY_SERVICES_LIST\n                    )\n                )")
V('c03-text-not-suppressed', 'C03', 'C03.DISPATCH', QHF,
  "            if not known_answers.suppresses(dns_text):\n                answer_set[dns_text] = set()", "            answer_set[dns_text] = set()")
V('c03-txt-host-ttl', 'C03', 'C03.TTLCLASS', INF,
  "            override_ttl if override_ttl is not None else self.other_ttl,\n            self.text,", "            override_ttl if override_ttl is not None else self.host_ttl,\n            self.text,")
V('c03-ptr-unique', 'C03', 'C03.TTLCLASS', INF,
  "            _TYPE_PTR,\n            _CLASS_IN,\n", "            _TYPE_PTR,\n            _CLASS_IN_UNIQUE,\n")
V('c03-srv-shared', 'C03', 'C03.TTLCLASS', INF,
  "            _TYPE_SRV,\n            _CLASS_IN_UNIQUE,", "            _TYPE_SRV,\n            _CLASS_IN,")
V('c03-override-ignored-nsec', 'C03', 'C03.TTLCLASS', INF,
  "            _CLASS_IN_UNIQUE,\n            override_ttl if override_ttl is not None else self.host_ttl,\n            self._name,\n            missing_types,",
  "            _CLASS_IN_UNIQUE,\n            self.host_ttl,\n            self._name,\n            missing_types,")
V('c03-memo-not-cleared-on-add', 'C03', 'C03.MEMO', RG,
  "        info.async_clear_cache()\n", "")
V('c03-memo-without-cacheable', 'C03', 'C03.MEMO', INF,
  "        if cacheable:\n            self._dns_text_cache = record\n        return record", "        self._dns_text_cache = record\n        return record")
V('c03-memo-served-to-goodbye', 'C03', 'C03.MEMO', INF,
  "        if self._dns_service_cache is not None and cacheable:\n            return self._dns_service_cache", "        if self._dns_service_cache is not None:\n            return self._dns_service_cache")
V('c03-clear-misses-slot', 'C03', 'C03.MEMO', INF,
  "        self._dns_address_cache = None\n        self._dns_pointer_cache = None\n        self._dns_service_cache = None\n        self._dns_text_cache = None\n        self._get_address_and_nsec_records_cache = None\n\n    async def async_wait",
  "        self._dns_address_cache = None\n        self._dns_pointer_cache = None\n        self._dns_service_cache = None\n        self._dns_text_cache = None\n\n    async def async_wait")
V('c03-additional-repeats', 'C03', 'C03.ADDL', '_handlers/answers.py',
  "            if additional not in sending:\n                out.add_additional_answer(additional)\n                sending.add(additional)", "            out.add_additional_answer(additional)\n            sending.add(additional)")
V('c03-additional-not-recorded', 'C03', 'C03.ADDL', '_handlers/answers.py',
  "                out.add_additional_answer(additional)\n                sending.add(additional)", "                out.add_additional_answer(additional)")
V('c03-suppress-ge', 'C03', 'C03.SUPPRESS', '_dns.py',
  "        return other.ttl > (record.ttl / 2)", "        return other.ttl >= (record.ttl / 2)")
V('c03-suppress-quarter', 'C03', 'C03.SUPPRESS', '_dns.py',
  "return self == other and other.ttl > (self.ttl / 2)", "return self == other and other.ttl > (self.ttl / 4)")
# twins
V('c03-twin-dispatch-elif', 'C03', 'C03.DISPATCH', QHF,
  "        if type_ in (_TYPE_PTR, _TYPE_ANY):\n            services = self.registry.async_get_infos_type(question_lower_name)",
  "        if type_ == _TYPE_PTR or type_ == _TYPE_ANY:\n            services = self.registry.async_get_infos_type(question_lower_name)", expect='silent')
V('c03-twin-suppress-flipped', 'C03', 'C03.SUPPRESS', '_dns.py',
  "        return other.ttl > (record.ttl / 2)", "        return record.ttl < 2 * other.ttl", expect='silent')
V('c03-twin-ttl-flipped', 'C03', 'C03.TTLCLASS', INF,
  "            override_ttl if override_ttl is not None else self.other_ttl,\n            self.text,", "            self.other_ttl if override_ttl is None else override_ttl,\n            self.text,", expect='silent')
V('c03-twin-hygiene-inline', 'C03', 'C03.INDEX', RG,
  "        record_list = records[key]\n        record_list.remove(name)\n        if not record_list:\n            del records[key]",
  "        records[key].remove(name)\n        if len(records[key]) == 0:\n            records.pop(key)", expect='silent')

INCF = '_protocol/incoming.py'
# ---------------------------------------------------------------- C02
V('c02-strict-decode', 'C02', 'C02.TOTAL', INCF,
  "labels.append(self.data[label_idx : label_idx + length].decode('utf-8', 'replace'))", "labels.append(self.data[label_idx : label_idx + length].decode('utf-8'))", names=['UnicodeDecodeError'])
V('c02-handler-drops-indexerror', 'C02', 'C02.TOTAL', INCF,
  "DECODE_EXCEPTIONS = (IndexError, struct.error, IncomingDecodeError)", "DECODE_EXCEPTIONS = (struct.error, IncomingDecodeError)", names=['IndexError'])
V('c02-keyerror-lookup', 'C02', 'C02.TOTAL', INCF,
  "            linked_labels = self._name_cache.get(link_py_int)", "            linked_labels = self._name_cache[link_py_int] if link_py_int < off else None", names=['KeyError'])
V('c02-slot-init-late', 'C02', 'C02.TOTAL', INCF,
  "        self._name_cache: Dict[int, List[str]] = {}\n", "", names=['_name_cache'],
  more=[(INCF, "        self._has_qu_question = False\n        try:\n            self._initial_parse()", "        self._has_qu_question = False\n        try:\n            self._initial_parse()\n            self._name_cache: Dict[int, List[str]] = {}")])
V('c02-valueerror-raise', 'C02', 'C02.TOTAL', INCF,
  "        self.offset += length\n        return None", "        if length > 4096:\n            raise ValueError('rdata too long')\n        self.offset += length\n        return None", names=['ValueError'])
V('c02-depth-guard-removed', 'C02', 'C02.DEPTH', INCF,
  "                if len(seen_pointers) > MAX_DNS_LABELS:", "                if False:", names=['_decode_labels_at_offset'])
V('c02-depth-guard-huge', 'C02', 'C02.DEPTH', INCF,
  "                if len(seen_pointers) > MAX_DNS_LABELS:", "                if len(seen_pointers) > MAX_DNS_LABELS * 32:", names=['_decode_labels_at_offset'])
V('c02-depth-fresh-set', 'C02', 'C02.DEPTH', INCF,
  "                self._decode_labels_at_offset(link, linked_labels, seen_pointers)", "                self._decode_labels_at_offset(link, linked_labels, {link_py_int})", names=['_decode_labels_at_offset'])
V('c02-loop-no-advance', 'C02', 'C02.LOOPS', INCF,
  "                off += DNS_COMPRESSION_HEADER_LEN + length\n                continue", "                off += length - 1\n                continue")
V('c02-loop-zero-length', 'C02', 'C02.LOOPS', INCF,
  "            if length == 0:\n                return off + DNS_COMPRESSION_HEADER_LEN\n\n            if length < 0x40:",
  "            if length < 0x40:", more=[(INCF, "                off += DNS_COMPRESSION_HEADER_LEN + length\n                continue", "                off += length\n                continue")])
V('c02-bitmap-no-advance', 'C02', 'C02.LOOPS', INCF,
  "            self.offset += 2 + bitmap_length", "            self.offset += bitmap_length")
V('c02-namelen-dropped', 'C02', 'C02.NAMELEN', INCF,
  "        if len(name) > MAX_NAME_LENGTH:", "        if len(name) > MAX_NAME_LENGTH * 4:")
V('c02-name-bypass', 'C02', 'C02.NAMELEN', INCF,
  "            return DNSPointer(domain, type_, class_, ttl, self._read_name(), self.now)", "            return DNSPointer(domain, type_, class_, ttl, self._read_character_string(), self.now)")
V('c02-oversize-accepted', 'C02', 'C02.GUARD', '_listener.py',
  "        if data_len > _MAX_MSG_ABSOLUTE:", "        if data_len > _MAX_MSG_ABSOLUTE * 2:")
# twins
V('c02-twin-guard-flipped', 'C02', 'C02.DEPTH', INCF,
  "                if len(seen_pointers) > MAX_DNS_LABELS:", "                if MAX_DNS_LABELS < len(seen_pointers):", expect='silent')
V('c02-twin-namelen-ge', 'C02', 'C02.NAMELEN', INCF,
  "        if len(name) > MAX_NAME_LENGTH:", "        if len(name) >= MAX_NAME_LENGTH + 1:", expect='silent')
V('c02-twin-loop-while-rewrite', 'C02', 'C02.LOOPS', INCF,
  "                off += DNS_COMPRESSION_HEADER_LEN + length\n                continue", "                off += length\n                off += 1\n                continue", expect='silent')

# ---------------------------------------------------------------- C15
V('c15-send-handler-removed', 'C15', 'C15.ESCAPE', CORE,
  "        except NamePartTooLongException:\n            # A name learned", "        except NonUniqueNameException:\n            # A name learned", names=['NamePartTooLongException'])
V('c15-raise-in-respond', 'C15', 'C15.ESCAPE', '_listener.py',
  "        packets = self._deferred.pop(addr, [])\n        if msg:\n            packets.append(msg)\n",
  "        packets = self._deferred.pop(addr, [])\n        if msg:\n            packets.append(msg)\n        if not packets:\n            raise ValueError('no packets to answer')\n", names=['_respond_query'])
V('c15-assert-in-handler', 'C15', 'C15.ESCAPE', QHF,
  "        first_packet = packets[0]\n        ucast_source = port != _MDNS_PORT", "        first_packet = packets[0]\n        assert first_packet.valid\n        ucast_source = port != _MDNS_PORT", names=['handle_assembled_query'])
V('c15-decoder-leak', 'C15', 'C15.ESCAPE', INCF,
  "DECODE_EXCEPTIONS = (IndexError, struct.error, IncomingDecodeError)", "DECODE_EXCEPTIONS = (struct.error, IncomingDecodeError)", names=['IndexError'])
V('c15-nsec-from-raw-types', 'C15', 'C15.ESCAPE', QHF,
  "            missing_types: Set[int] = _ADDRESS_RECORD_TYPES - seen_types", "            missing_types: Set[int] = {type_} - seen_types", names=['DNSNsec.write'])
V('c15-nsec-unguarded', 'C15', 'C15.ESCAPE', QHF,
  "            elif type_ in missing_types:\n                assert service.server", "            else:\n                assert service.server", names=['DNSNsec.write'])
V('c15-listener-shim-inherited', 'C15', 'C15.ESCAPE', BR,
  "    def async_update_records(self, zc: 'Zeroconf', now: float_, records: List[RecordUpdate]) -> None:\n        \"\"\"Callback invoked by Zeroconf when new information arrives.",
  "    def _async_update_records(self, zc: 'Zeroconf', now: float_, records: List[RecordUpdate]) -> None:\n        \"\"\"Callback invoked by Zeroconf when new information arrives.", names=['update_record'])
V('c15-server-key-alone', 'C15', 'C15.ESCAPE', INF,
  "        if self.server is None:\n            self.server = self._name\n            self.server_key = self.key", "        if self.server is None:\n            self.server_key = self.key", names=['AssertionError'])
V('c15-nsec-known-answer', 'C15', 'C15.ESCAPE', INF,
  "            out, qu_question, history, cache, now, server, _TYPE_AAAA, _CLASS_IN, False\n        )\n        return out",
  "            out, qu_question, history, cache, now, server, _TYPE_AAAA, _CLASS_IN, False\n        )\n        self._add_question_with_known_answers(\n            out, qu_question, history, cache, now, server, _TYPE_NSEC, _CLASS_IN, False\n        )\n        return out", names=['DNSNsec.write'])
# twins
V('c15-twin-handler-tuple', 'C15', 'C15.ESCAPE', CORE,
  "        except NamePartTooLongException:\n            # A name learned", "        except (NamePartTooLongException, NonUniqueNameException):\n            # A name learned", expect='silent')

NM = '_utils/name.py'
# ---------------------------------------------------------------- C19
V('c19-empty-check-removed', 'C19', 'C19.TOTAL', NM,
  "        if not test_service_name:\n            raise BadTypeInNameException(\"Service name (%s) must not be empty\" % service_name)\n\n", "", names=['test_service_name[0]'])
V('c19-pop-unguarded', 'C19', 'C19.TOTAL', NM,
  "    if remaining and remaining[-1] == '_sub':\n        remaining.pop()", "    if remaining and remaining[-1] == '_sub':\n        remaining.pop()\n        remaining.pop()", names=['remaining.pop()'])
V('c19-valueerror', 'C19', 'C19.TOTAL', NM,
  "    if len(type_) > 256:", "    if not type_:\n        raise ValueError('empty')\n    if len(type_) > 256:", names=['ValueError'])
V('c19-index-before-guard', 'C19', 'C19.TOTAL', NM,
  "        if not service_name:\n            raise BadTypeInNameException(\"No Service name found\")\n\n", "", names=['service_name[0]'])
V('c19-dollar-anchor', 'C19', 'C19.REGEX', 'const.py',
  "_HAS_ONLY_A_TO_Z_NUM_HYPHEN = re.compile(r'^[A-Za-z0-9\\-]+\\Z')", "_HAS_ONLY_A_TO_Z_NUM_HYPHEN = re.compile(r'^[A-Za-z0-9\\-]+$')", names=['_HAS_ONLY_A_TO_Z_NUM_HYPHEN'])
V('c19-dot-in-class', 'C19', 'C19.REGEX', 'const.py',
  "_HAS_ONLY_A_TO_Z_NUM_HYPHEN = re.compile(r'^[A-Za-z0-9\\-]+\\Z')", "_HAS_ONLY_A_TO_Z_NUM_HYPHEN = re.compile(r'^[A-Za-z0-9\\-.]+\\Z')", names=['character set'])
V('c19-no-start-anchor', 'C19', 'C19.REGEX', 'const.py',
  "_HAS_ONLY_A_TO_Z_NUM_HYPHEN_UNDERSCORE = re.compile(r'^[A-Za-z0-9\\-\\_]+\\Z')", "_HAS_ONLY_A_TO_Z_NUM_HYPHEN_UNDERSCORE = re.compile(r'[A-Za-z0-9\\-\\_]+\\Z')")
V('c19-control-set-short', 'C19', 'C19.REGEX', 'const.py',
  "_HAS_ASCII_CONTROL_CHARS = re.compile(r'[\\x00-\\x1f\\x7f]')", "_HAS_ASCII_CONTROL_CHARS = re.compile(r'[\\x00-\\x1f]')")
V('c19-limit-16', 'C19', 'C19.CONST', NM,
  "        if strict and len(test_service_name) > 15:", "        if strict and len(test_service_name) > 16:")
V('c19-limit-strict-dropped', 'C19', 'C19.CONST', NM,
  "        if strict and len(test_service_name) > 15:", "        if len(test_service_name) > 15:")
V('c19-label-64', 'C19', 'C19.CONST', NM, "        if length > 63:", "        if length >= 65:")
V('c19-label-chars', 'C19', 'C19.CONST', NM, "        length = len(remaining[0].encode('utf-8'))", "        length = len(remaining[0])")
V('c19-whole-255', 'C19', 'C19.CONST', NM, "    if len(type_) > 256:", "    if len(type_) > 512:")
V('c19-txt-two-byte-len', 'C19', 'C19.TXT', INF,
  "            result = b''.join((result, bytes((len(item),)), item))", "            result = b''.join((result, len(item).to_bytes(2, 'big'), item))")
V('c19-txt-last-wins', 'C19', 'C19.TXT', INF,
  "            if key not in properties:\n                properties[key] = key_sep_value[2] or None", "            properties[key] = key_sep_value[2] or None")
V('c19-txt-skip-wrong', 'C19', 'C19.TXT', INF,
  "            index += length\n\n        self._properties = properties", "            index += length + 1\n\n        self._properties = properties")
# twins
V('c19-twin-fullmatch', 'C19', 'C19.REGEX', NM,
  "        if not allowed_characters_re.search(test_service_name):", "        if not allowed_characters_re.fullmatch(test_service_name):", expect='silent')
V('c19-twin-empty-len', 'C19', 'C19.TOTAL', NM,
  "        if not test_service_name:\n            raise BadTypeInNameException(\"Service name (%s) must not be empty\" % service_name)",
  "        if len(test_service_name) == 0:\n            raise BadTypeInNameException(\"Service name (%s) must not be empty\" % service_name)", expect='silent')
V('c19-twin-limit-ge', 'C19', 'C19.CONST', NM, "        if length > 63:", "        if length >= 64:", expect='silent')

# ---------------------------------------------------------------- C10
V('c10-early-return-no-rearm', 'C10', 'C10.REARM', BR,
  "        if ready_types:\n            self.async_send_ready_queries(False, now_millis, ready_types)\n",
  "        if not ready_types and not self._query_heap:\n            return\n        if ready_types:\n            self.async_send_ready_queries(False, now_millis, ready_types)\n", names=['_process_ready_types'])
V('c10-startup-forgets-rearm', 'C10', 'C10.REARM', BR,
  "        self._next_run = self._loop.call_later(self._startup_queries_sent**2, self._process_startup_queries)",
  "        if self._types:\n            self._next_run = self._loop.call_later(self._startup_queries_sent**2, self._process_startup_queries)", names=['_process_startup_queries'])
V('c10-raise-before-rearm', 'C10', 'C10.REARM', BR,
  "        now_millis = current_time_millis()\n        # Refresh records that are about to expire",
  "        now_millis = current_time_millis()\n        if self._next_run is None:\n            raise RuntimeError('scheduler not started')\n        # Refresh records that are about to expire", names=['RuntimeError'])
V('c10-stale-heap-top', 'C10', 'C10.HEAPMIN', BR,
  "        next_when_millis = now_millis + self._min_time_between_queries_millis\n        self._next_run = self._loop.call_at(millis_to_seconds(next_when_millis), self._process_ready_types)",
  "        next_when_millis = now_millis + self._min_time_between_queries_millis\n        if self._query_heap and self._query_heap[0].when_millis > next_when_millis:\n            next_when_millis = self._query_heap[0].when_millis\n        self._next_run = self._loop.call_at(millis_to_seconds(next_when_millis), self._process_ready_types)", names=['_schedule_ptr_query'])
V('c10-poll-double-delay', 'C10', 'C10.HEAPMIN', BR,
  "        next_when_millis = now_millis + self._min_time_between_queries_millis\n        self._next_run = self._loop.call_at(millis_to_seconds(next_when_millis), self._process_ready_types)",
  "        next_when_millis = now_millis + self._min_time_between_queries_millis * 6\n        self._next_run = self._loop.call_at(millis_to_seconds(next_when_millis), self._process_ready_types)")
V('c10-alias-spelling-key', 'C10', 'C10.ALIASKEY', BR,
  "        current = self._next_scheduled_for_alias.get(pointer.alias_key)", "        current = self._next_scheduled_for_alias.get(pointer.alias)")
V('c10-alias-spelling-ctor', 'C10', 'C10.ALIASKEY', BR,
  "            pointer.alias_key, pointer.name, ttl, expire_time_millis, refresh_time_millis", "            pointer.alias, pointer.name, ttl, expire_time_millis, refresh_time_millis")
V('c10-cancel-keeps-map', 'C10', 'C10.PAIR', BR,
  "        scheduled = self._next_scheduled_for_alias.pop(pointer.alias_key, None)", "        scheduled = self._next_scheduled_for_alias.get(pointer.alias_key, None)")
V('c10-push-without-map', 'C10', 'C10.PAIR', BR,
  "        self._next_scheduled_for_alias[scheduled_query.alias] = scheduled_query\n        heappush(self._query_heap, scheduled_query)", "        heappush(self._query_heap, scheduled_query)")
V('c10-supersede-not-cancelled', 'C10', 'C10.PAIR', BR,
  "            current.cancelled = True\n            del self._next_scheduled_for_alias[pointer.alias_key]", "            del self._next_scheduled_for_alias[pointer.alias_key]")
V('c10-refresh-80', 'C10', 'C10.CONST', 'const.py', "_EXPIRE_REFRESH_TIME_PERCENT = 75", "_EXPIRE_REFRESH_TIME_PERCENT = 80")
V('c10-rescue-20', 'C10', 'C10.CONST', BR, "RESCUE_RECORD_RETRY_TTL_PERCENTAGE = 0.1", "RESCUE_RECORD_RETRY_TTL_PERCENTAGE = 0.2")
V('c10-backoff-linear', 'C10', 'C10.CONST', BR,
  "self._loop.call_later(self._startup_queries_sent**2, self._process_startup_queries)", "self._loop.call_later(self._startup_queries_sent * 2, self._process_startup_queries)")
V('c10-startup-three', 'C10', 'C10.CONST', BR, "STARTUP_QUERIES = 4", "STARTUP_QUERIES = 3")
V('c10-rescue-past-expiry', 'C10', 'C10.CONST', BR,
  "        if next_query_time >= query.expire_time_millis:", "        if next_query_time >= query.expire_time_millis + ttl_millis:")
# twins
V('c10-twin-poll-inline', 'C10', 'C10.HEAPMIN', BR,
  "        next_when_millis = now_millis + self._min_time_between_queries_millis\n        self._next_run = self._loop.call_at(millis_to_seconds(next_when_millis), self._process_ready_types)",
  "        self._next_run = self._loop.call_at(\n            millis_to_seconds(self._min_time_between_queries_millis + now_millis), self._process_ready_types\n        )", expect='silent')
V('c10-twin-backoff-mult', 'C10', 'C10.CONST', BR,
  "self._loop.call_later(self._startup_queries_sent**2, self._process_startup_queries)", "self._loop.call_later(self._startup_queries_sent * self._startup_queries_sent, self._process_startup_queries)", expect='silent')

OUTF = '_protocol/outgoing.py'
# ---------------------------------------------------------------- C14
V('c14-short-size-1', 'C14', 'C14.ACCOUNT', OUTF,
  "        self.data.append(self._get_short(value))\n        self.size += 2", "        self.data.append(self._get_short(value))\n        self.size += 1")
V('c14-int-size-2', 'C14', 'C14.ACCOUNT', OUTF,
  "            self.data.append(PACK_LONG(value_as_int))\n        self.size += 4", "            self.data.append(PACK_LONG(value_as_int))\n        self.size += 2")
V('c14-string-not-counted', 'C14', 'C14.ACCOUNT', OUTF,
  "        self.data.append(value)\n        self.size += len(value)", "        self.data.append(value)")
V('c14-short-format', 'C14', 'C14.ACCOUNT', OUTF, "PACK_SHORT = Struct('>H').pack", "PACK_SHORT = Struct('>L').pack")
V('c14-header-five', 'C14', 'C14.ACCOUNT', OUTF,
  "            if self.multicast:\n                self._insert_short_at_start(0)\n            else:\n                self._insert_short_at_start(self.id)",
  "            if not self.multicast:\n                self._insert_short_at_start(self.id)")
V('c14-size-reset-zero', 'C14', 'C14.ACCOUNT', OUTF,
  "        self.data = []\n        self.size = _DNS_PACKET_HEADER_LEN\n        self.allow_long = True", "        self.data = []\n        self.size = 0\n        self.allow_long = True")
V('c14-rdlength-off-by-one', 'C14', 'C14.ACCOUNT', OUTF,
  "        for d in self.data[index + 1 :]:", "        for d in self.data[index:]:")
V('c14-limit-lt', 'C14', 'C14.LIMIT', OUTF, "        if self.size <= len_limit:", "        if self.size < len_limit:")
V('c14-always-long', 'C14', 'C14.LIMIT', OUTF, "        len_limit = _MAX_MSG_ABSOLUTE if self.allow_long else _MAX_MSG_TYPICAL\n        self.allow_long = False", "        len_limit = _MAX_MSG_ABSOLUTE if self.allow_long else _MAX_MSG_TYPICAL")
V('c14-question-ignores-limit', 'C14', 'C14.LIMIT', OUTF,
  "        self._write_record_class(question)\n        return self._check_data_limit_or_rollback(start_data_length, start_size)",
  "        self._write_record_class(question)\n        self._check_data_limit_or_rollback(start_data_length, start_size)\n        return True")
V('c14-sender-no-drop', 'C14', 'C14.LIMIT', CORE,
  "            if len(packet) > _MAX_MSG_ABSOLUTE:", "            if len(packet) > _MAX_MSG_ABSOLUTE * 8:")
V('c14-offset-wrong-count', 'C14', 'C14.SECTIONS', OUTF,
  "            answer_offset += answers_written", "            answer_offset += questions_written")
V('c14-header-counts-swapped', 'C14', 'C14.SECTIONS', OUTF,
  "            self._insert_short_at_start(additionals_written)\n            self._insert_short_at_start(authorities_written)", "            self._insert_short_at_start(authorities_written)\n            self._insert_short_at_start(additionals_written)")
V('c14-count-before-write', 'C14', 'C14.SECTIONS', OUTF,
  "        for record in records[offset:]:\n            if not self._write_record(record, 0):\n                break\n            records_written += 1",
  "        for record in records[offset:]:\n            records_written += 1\n            if not self._write_record(record, 0):\n                break")
V('c14-continue-after-failure', 'C14', 'C14.SECTIONS', OUTF,
  "            if not self._write_question(question):\n                break\n            questions_written += 1", "            if not self._write_question(question):\n                continue\n            questions_written += 1")
V('c14-more-wrong-list', 'C14', 'C14.SECTIONS', OUTF,
  "            or authority_offset < len(self.authorities)", "            or authority_offset < len(self.additionals)")
V('c14-authorities-from-zero', 'C14', 'C14.SECTIONS', OUTF,
  "self._write_records_from_offset(self.authorities, authority_offset)", "self._write_records_from_offset(self.authorities, additional_offset)")
V('c14-tc-on-responses', 'C14', 'C14.TC', OUTF, "            if has_more_to_add and self.is_query():", "            if has_more_to_add:")
V('c14-tc-never', 'C14', 'C14.TC', OUTF, "                self._insert_short_at_start(self.flags | _FLAGS_TC)", "                self._insert_short_at_start(self.flags)")
V('c14-id-on-multicast', 'C14', 'C14.TC', OUTF, "            if self.multicast:\n                self._insert_short_at_start(0)", "            if not self.multicast:\n                self._insert_short_at_start(0)")
# twins
V('c14-twin-limit-flipped', 'C14', 'C14.LIMIT', OUTF, "        if self.size <= len_limit:", "        if not self.size > len_limit:", expect='silent')
V('c14-twin-tc-nested', 'C14', 'C14.TC', OUTF, "            if has_more_to_add and self.is_query():", "            if self.is_query() and has_more_to_add is True:", expect='silent')

# ---------------------------------------------------------------- C01
V('c01-label-64', 'C01', 'C01.LABEL', OUTF, "        if length > 63:\n            raise NamePartTooLongException", "        if length > 64:\n            raise NamePartTooLongException")
V('c01-label-chars-not-bytes', 'C01', 'C01.LABEL', OUTF, "        utfstr = s.encode('utf-8')\n        length = len(utfstr)", "        utfstr = s.encode('utf-8')\n        length = len(s)")
V('c01-pointer-tag', 'C01', 'C01.LABEL', OUTF, "        self._write_byte((index >> 8) | 0xC0)", "        self._write_byte((index >> 8) | 0x80)")
V('c01-decoder-label-80', 'C01', 'C01.LABEL', INCF, "            if length < 0x40:", "            if length < 0x80:")
V('c01-srv-swap-writer', 'C01', 'C01.LAYOUT', DNS,
  "        out.write_short(self.priority)\n        out.write_short(self.weight)", "        out.write_short(self.weight)\n        out.write_short(self.priority)")
V('c01-srv-swap-both', 'C01', 'C01.LAYOUT', DNS,
  "        out.write_short(self.priority)\n        out.write_short(self.weight)", "        out.write_short(self.weight)\n        out.write_short(self.priority)",
  more=[(INCF, "            priority = view[offset] << 8 | view[offset + 1]\n            weight = view[offset + 2] << 8 | view[offset + 3]", "            weight = view[offset] << 8 | view[offset + 1]\n            priority = view[offset + 2] << 8 | view[offset + 3]")])
V('c01-port-before-weight', 'C01', 'C01.LAYOUT', INCF,
  "            weight = view[offset + 2] << 8 | view[offset + 3]\n            port = view[offset + 4] << 8 | view[offset + 5]", "            port = view[offset + 2] << 8 | view[offset + 3]\n            weight = view[offset + 4] << 8 | view[offset + 5]")
V('c01-ttl-u16', 'C01', 'C01.LAYOUT', OUTF,
  "        self._write_int(record.ttl if now == 0 else record.get_remaining_ttl(now))", "        self.write_short(int(record.ttl if now == 0 else record.get_remaining_ttl(now)))")
V('c01-hinfo-order', 'C01', 'C01.LAYOUT', DNS,
  "        out.write_character_string(self.cpu.encode('utf-8'))\n        out.write_character_string(self.os.encode('utf-8'))", "        out.write_character_string(self.os.encode('utf-8'))\n        out.write_character_string(self.cpu.encode('utf-8'))")
V('c01-header-swapped-both', 'C01', 'C01.LAYOUT', INCF,
  "        self._num_authorities = view[offset + 8] << 8 | view[offset + 9]\n        self._num_additionals = view[offset + 10] << 8 | view[offset + 11]",
  "        self._num_additionals = view[offset + 8] << 8 | view[offset + 9]\n        self._num_authorities = view[offset + 10] << 8 | view[offset + 11]")
V('c01-aaaa-8-bytes', 'C01', 'C01.LAYOUT', INCF, "self._read_string(16), self.scope_id, self.now)", "self._read_string(8), self.scope_id, self.now)")
V('c01-cname-dropped', 'C01', 'C01.LAYOUT', INCF, "        if type_ in (_TYPE_CNAME, _TYPE_PTR):", "        if type_ == _TYPE_PTR:")
V('c01-little-endian-class', 'C01', 'C01.LAYOUT', INCF,
  "            class_ = view[offset + 2] << 8 | view[offset + 3]\n            question = DNSQuestion", "            class_ = view[offset + 3] << 8 | view[offset + 2]\n            question = DNSQuestion")
V('c01-created-not-arrival', 'C01', 'C01.LAYOUT', INCF, "return DNSText(domain, type_, class_, ttl, self._read_string(length), self.now)", "return DNSText(domain, type_, class_, ttl, self._read_string(length))")
V('c01-names-not-rolled-back', 'C01', 'C01.ROLLBACK', OUTF,
  "        for name in rollback_names:\n            del self.names[name]\n        return False", "        return False")
V('c01-names-not-reset', 'C01', 'C01.ROLLBACK', OUTF, "        self.names = {}\n        self.data = []\n        self.size = _DNS_PACKET_HEADER_LEN\n        self.allow_long = True\n\n    def __repr__", "        self.data = []\n        self.size = _DNS_PACKET_HEADER_LEN\n        self.allow_long = True\n\n    def __repr__")
V('c01-rollback-gt', 'C01', 'C01.ROLLBACK', OUTF, "if idx >= start_size_int]", "if idx > start_size_int]")
V('c01-suffix-offset', 'C01', 'C01.ROLLBACK', OUTF,
  "self.names[partial_name] = start_size + name_length - len(partial_name.encode('utf-8'))", "self.names[partial_name] = start_size + name_length - len(partial_name)")
V('c01-flush-on-unicast', 'C01', 'C01.FLUSHBIT', OUTF, "        if record.unique is True and self.multicast:", "        if record.unique is True:")
V('c01-nsec-lsb-first', 'C01', 'C01.NSECBITS', DNS, "            bitmap[byte] |= 0x80 >> (rdtype % 8)", "            bitmap[byte] |= 0x01 << (rdtype % 8)")
V('c01-nsec-reader-window', 'C01', 'C01.NSECBITS', INCF, "rdtypes.append(bit + window * 256 + i * 8)", "rdtypes.append(bit + window * 128 + i * 8)")
# twins
V('c01-twin-label-ge', 'C01', 'C01.LABEL', OUTF, "        if length > 63:\n            raise NamePartTooLongException", "        if length >= 0x40:\n            raise NamePartTooLongException", expect='silent')
V('c01-twin-srv-locals-reordered', 'C01', 'C01.LAYOUT', INCF,
  "            priority = view[offset] << 8 | view[offset + 1]\n            weight = view[offset + 2] << 8 | view[offset + 3]\n            port = view[offset + 4] << 8 | view[offset + 5]",
  "            port = view[offset + 4] << 8 | view[offset + 5]\n            weight = view[offset + 2] << 8 | view[offset + 3]\n            priority = view[1 + offset] | view[offset] << 8", expect='silent')

# ---------------------------------------------------------------- C11
V('c11-qu-probe-mcast-only', 'C11', 'C11.ROUTE', QHF,
  "            if self._is_probe:\n                self._ucast.add(record)\n            if not self._has_mcast_within_one_quarter_ttl(record):",
  "            if not self._has_mcast_within_one_quarter_ttl(record):")
V('c11-qu-always-unicast', 'C11', 'C11.ROUTE', QHF,
  "            elif not self._is_probe:\n                self._ucast.add(record)", "            else:\n                self._ucast.add(record)",
  more=[(QHF, "            if not self._has_mcast_within_one_quarter_ttl(record):\n                self._mcast_now.add(record)", "            if False:\n                self._mcast_now.add(record)")])
V('c11-qu-from-unicast-source-no-mcast', 'C11', 'C11.ROUTE', QHF,
  "            if not ucast_source and is_unicast:", "            if is_unicast:")
V('c11-ucast-source-no-unicast', 'C11', 'C11.ROUTE', QHF,
  "            if ucast_source:\n                query_res.add_ucast_question_response(answer_set)", "            if ucast_source and is_unicast:\n                query_res.add_ucast_question_response(answer_set)")
V('c11-history-records-qu', 'C11', 'C11.ROUTE', QHF,
  "            if not is_unicast:\n                if known_answers_set is None:", "            if True:\n                if known_answers_set is None:")
V('c11-probe-aggregated', 'C11', 'C11.ROUTE', QHF,
  "            if self._is_probe:\n                self._mcast_now.add(answer)\n                continue\n\n", "")
V('c11-last-second-to-aggregate', 'C11', 'C11.ROUTE', QHF,
  "                self._mcast_aggregate_last_second.add(answer)\n                continue", "                self._mcast_aggregate.add(answer)\n                continue")
V('c11-immediate-any-count', 'C11', 'C11.ROUTE', QHF,
  "            if len(self._questions) == 1:\n                question = self._questions[0]", "            if len(self._questions) >= 1:\n                question = self._questions[0]")
V('c11-ptr-immediate', 'C11', 'C11.ROUTE', QHF,
  "_RESPOND_IMMEDIATE_TYPES = {_TYPE_NSEC, _TYPE_SRV, *_ADDRESS_RECORD_TYPES}", "_RESPOND_IMMEDIATE_TYPES = {_TYPE_NSEC, _TYPE_SRV, _TYPE_PTR, *_ADDRESS_RECORD_TYPES}")
V('c11-unicast-without-transport', 'C11', 'C11.ROUTE', QHF,
  "            self.zc.async_send(out, addr, port, v6_flow_scope, transport)", "            self.zc.async_send(out, addr, port, v6_flow_scope)")
V('c11-unicast-to-mdns-port', 'C11', 'C11.ROUTE', QHF,
  "            self.zc.async_send(out, addr, port, v6_flow_scope, transport)", "            self.zc.async_send(out, addr, _MDNS_PORT, v6_flow_scope, transport)")
V('c11-last-second-wrong-queue', 'C11', 'C11.ROUTE', QHF,
  "            self.out_delay_queue.async_add(first_packet.now, question_answers.mcast_aggregate_last_second)", "            self.out_queue.async_add(first_packet.now, question_answers.mcast_aggregate_last_second)")
V('c11-ucast-source-53', 'C11', 'C11.ROUTE', QHF, "        ucast_source = port != _MDNS_PORT", "        ucast_source = port < _MDNS_PORT")
V('c11-transport-not-passed', 'C11', 'C11.ROUTE', '_listener.py',
  "            self._respond_query(msg, addr, port, transport, v6_flow_scope)\n            return", "            self._respond_query(msg, addr, port, self.transport, v6_flow_scope)\n            return", expect='silent')
V('c11-unicast-built-multicast', 'C11', 'C11.FORMAT', '_handlers/answers.py',
  "    out = DNSOutgoing(_FLAGS_QR_RESPONSE_AA, False, id_)", "    out = DNSOutgoing(_FLAGS_QR_RESPONSE_AA, True, id_)")
V('c11-unicast-id-dropped', 'C11', 'C11.FORMAT', '_handlers/answers.py',
  "    out = DNSOutgoing(_FLAGS_QR_RESPONSE_AA, False, id_)", "    out = DNSOutgoing(_FLAGS_QR_RESPONSE_AA, False)")
V('c11-always-echo', 'C11', 'C11.FORMAT', '_handlers/answers.py',
  "    if ucast_source:\n        for question in questions:", "    if questions:\n        for question in questions:")
V('c11-mcast-not-authoritative', 'C11', 'C11.FORMAT', '_handlers/answers.py',
  "_FLAGS_QR_RESPONSE_AA = _FLAGS_QR_RESPONSE | _FLAGS_AA", "_FLAGS_QR_RESPONSE_AA = _FLAGS_QR_RESPONSE")
V('c11-mcast-echoes-question', 'C11', 'C11.FORMAT', '_handlers/answers.py',
  "    out = DNSOutgoing(_FLAGS_QR_RESPONSE_AA, True)\n    _add_answers_additionals(out, answers)", "    out = DNSOutgoing(_FLAGS_QR_RESPONSE_AA, True)\n    for answer in answers:\n        out.add_question(DNSQuestion(answer.name, answer.type, answer.class_))\n    _add_answers_additionals(out, answers)")
V('c11-recent-half', 'C11', 'C11.FORMAT', DNS, "_RECENT_TIME_MS = 250", "_RECENT_TIME_MS = 500")
V('c11-id-of-last-packet', 'C11', 'C11.FORMAT', QHF, "            id_ = first_packet.id", "            id_ = packets[-1].id")
# twins
V('c11-twin-qu-rewritten', 'C11', 'C11.ROUTE', QHF,
  "            if self._is_probe:\n                self._ucast.add(record)\n            if not self._has_mcast_within_one_quarter_ttl(record):\n                self._mcast_now.add(record)\n            elif not self._is_probe:\n                self._ucast.add(record)",
  "            recent = self._has_mcast_within_one_quarter_ttl(record)\n            if not recent:\n                self._mcast_now.add(record)\n            if self._is_probe or recent:\n                self._ucast.add(record)", expect='silent')

MQF = '_handlers/multicast_outgoing_queue.py'
LSF = '_listener.py'
# ---------------------------------------------------------------- C12
V('c12-aggregation-800', 'C12', 'C12.WINDOW', CORE, "_AGGREGATION_DELAY = 500  # ms", "_AGGREGATION_DELAY = 800  # ms")
V('c12-queues-swapped', 'C12', 'C12.WINDOW', CORE,
  "self.out_delay_queue = MulticastOutgoingQueue(self, _ONE_SECOND, _PROTECTED_AGGREGATION_DELAY)", "self.out_delay_queue = MulticastOutgoingQueue(self, _PROTECTED_AGGREGATION_DELAY, _ONE_SECOND)")
V('c12-jitter-interval', 'C12', 'C12.WINDOW', '_handlers/answers.py', "MULTICAST_DELAY_RANDOM_INTERVAL = (20, 120)", "MULTICAST_DELAY_RANDOM_INTERVAL = (0, 120)")
V('c12-send-before-no-additional', 'C12', 'C12.WINDOW', MQF,
  "        send_before = now + self._aggregation_delay + self._additional_delay", "        send_before = now + self._aggregation_delay")
V('c12-send-after-no-jitter', 'C12', 'C12.WINDOW', MQF,
  "        random_delay = random_int + self._additional_delay", "        random_delay = self._additional_delay")
V('c12-delays-stored-swapped', 'C12', 'C12.WINDOW', MQF,
  "        self._additional_delay = additional_delay\n        self._aggregation_delay = max_aggregation_delay", "        self._additional_delay = max_aggregation_delay\n        self._aggregation_delay = additional_delay")
V('c12-timer-not-delayed', 'C12', 'C12.WINDOW', MQF,
  "            loop.call_at(loop.time() + millis_to_seconds(random_delay), self.async_ready)", "            loop.call_at(loop.time() + millis_to_seconds(random_int), self.async_ready)")
V('c12-last-second-le', 'C12', 'C12.WINDOW', QHF,
  "self._now - maybe_entry.created < _ONE_SECOND)", "self._now - maybe_entry.created <= _ONE_SECOND)")
V('c12-tc-interval', 'C12', 'C12.WINDOW', LSF, "_TC_DELAY_RANDOM_INTERVAL = (400, 500)", "_TC_DELAY_RANDOM_INTERVAL = (40, 50)")
V('c12-merge-always', 'C12', 'C12.WINDOW', MQF,
  "            if send_after <= last_group.send_after:", "            if send_after >= last_group.send_after:")
V('c12-no-dedup', 'C12', 'C12.WIRING', MQF,
  "            self._remove_answers_from_queue(answers)\n", "")
V('c12-flush-waits-forever', 'C12', 'C12.WIRING', MQF,
  "        if len(self.queue) > 1 and self.queue[0].send_before > now:", "        if len(self.queue) > 0 and self.queue[0].send_before > now:")
V('c12-rearm-at-before', 'C12', 'C12.WIRING', MQF,
  "            loop.call_at(loop.time() + millis_to_seconds(self.queue[0].send_after - now), self.async_ready)", "            loop.call_at(loop.time() + millis_to_seconds(self.queue[0].send_before - now), self.async_ready)")
V('c12-take-not-due', 'C12', 'C12.WIRING', MQF,
  "        while len(self.queue) and self.queue[0].send_after <= now:", "        while len(self.queue) and self.queue[0].send_before <= now:")
V('c12-tc-timer-not-cancelled', 'C12', 'C12.WIRING', LSF,
  "        self._cancel_any_timers_for_addr(addr)\n        self._timers[addr] = loop.call_at(", "        self._timers[addr] = loop.call_at(")
V('c12-tc-duplicate-deferred', 'C12', 'C12.WIRING', LSF,
  "        for incoming in reversed(deferred):\n            if incoming.data == msg.data:\n                return\n", "")
V('c12-deferred-not-consumed', 'C12', 'C12.WIRING', LSF,
  "        packets = self._deferred.pop(addr, [])", "        packets = list(self._deferred.get(addr, []))")
# twins
V('c12-twin-window-reordered', 'C12', 'C12.WINDOW', MQF,
  "        send_before = now + self._aggregation_delay + self._additional_delay", "        send_before = self._additional_delay + (now + self._aggregation_delay)", expect='silent')

HIS = '_history.py'
# ---------------------------------------------------------------- C13
V('c13-known-expired', 'C13', 'C13.KNOWN', INF,
  "answer for answer in cache.get_all_by_details(name, type_, class_) if not answer.is_stale(now)", "answer for answer in cache.get_all_by_details(name, type_, class_) if not answer.is_expired(now)")
V('c13-known-full-ttl', 'C13', 'C13.KNOWN', INF,
  "        for answer in known_answers:\n            out.add_answer_at_time(answer, now)", "        for answer in known_answers:\n            out.add_answer_at_time(answer, 0)")
V('c13-known-other-name', 'C13', 'C13.KNOWN', BR,
  "for record in cache.get_all_by_details(type_, _TYPE_PTR, _CLASS_IN)", "for record in cache.get_all_by_details(type_, _TYPE_SRV, _CLASS_IN)")
V('c13-bucket-time-zero', 'C13', 'C13.KNOWN', BR,
  "            self.out.add_answer_at_time(answer, self.now_millis)", "            self.out.add_answer_at_time(answer, 0.0)")
V('c13-ttl-always-full', 'C13', 'C13.KNOWN', OUTF,
  "        self._write_int(record.ttl if now == 0 else record.get_remaining_ttl(now))", "        self._write_int(record.ttl)")
V('c13-answers-written-time-zero', 'C13', 'C13.KNOWN', OUTF,
  "            if not self._write_record(answer, time_):", "            if not self._write_record(answer, 0):")
V('c13-qu-suppressed-lookup', 'C13', 'C13.HISTORY', INF,
  "        if qu_question:\n            question.unicast = True\n        elif question_history.suppresses(question, now, known_answers):\n            return",
  "        if question_history.suppresses(question, now, known_answers):\n            return\n        if qu_question:\n            question.unicast = True")
V('c13-qm-not-recorded', 'C13', 'C13.HISTORY', INF,
  "        else:\n            question_history.add_question_at_time(question, now, known_answers)\n        out.add_question(question)", "        out.add_question(question)")
V('c13-browser-qu-suppressed', 'C13', 'C13.HISTORY', BR,
  "        if not qu_question and question_history.suppresses(question, now_millis, known_answers):", "        if question_history.suppresses(question, now_millis, known_answers):")
V('c13-browser-records-qu', 'C13', 'C13.HISTORY', BR,
  "        if not qu_question:\n            question_history.add_question_at_time(question, now_millis, known_answers)", "        question_history.add_question_at_time(question, now_millis, known_answers)")
V('c13-window-1999', 'C13', 'C13.HISTORY', 'const.py', "_DUPLICATE_QUESTION_INTERVAL = 999  # ms", "_DUPLICATE_QUESTION_INTERVAL = 1999  # ms")
V('c13-window-ge', 'C13', 'C13.HISTORY', HIS, "        if now - than > _DUPLICATE_QUESTION_INTERVAL:\n            return False\n        # The last question has more", "        if now - than >= _DUPLICATE_QUESTION_INTERVAL:\n            return False\n        # The last question has more")
V('c13-ignores-known-answers', 'C13', 'C13.HISTORY', HIS, "        if previous_known_answers - known_answers:\n            return False\n", "")
V('c13-browser-always-qm', 'C13', 'C13.QUFIRST', BR,
  "question_type = QU_QUESTION if self._question_type is None and first_request else self._question_type", "question_type = self._question_type")
V('c13-browser-forced-ignored', 'C13', 'C13.QUFIRST', BR,
  "question_type = QU_QUESTION if self._question_type is None and first_request else self._question_type", "question_type = QU_QUESTION if first_request else self._question_type")
V('c13-lookup-always-qu', 'C13', 'C13.QUFIRST', INF,
  "this_question_type = question_type or QU_QUESTION if first_request else QM_QUESTION", "this_question_type = question_type or QU_QUESTION")
V('c13-refresh-is-first', 'C13', 'C13.QUFIRST', BR,
  "            self.async_send_ready_queries(False, now_millis, ready_types)", "            self.async_send_ready_queries(True, now_millis, ready_types)")
V('c13-no-jitter', 'C13', 'C13.CONST', INF, "                    next_ += self._get_random_delay()\n", "")
V('c13-srv-asked-when-known', 'C13', 'C13.CONST', INF,
  "            out, qu_question, history, cache, now, name, _TYPE_SRV, _CLASS_IN, True", "            out, qu_question, history, cache, now, name, _TYPE_SRV, _CLASS_IN, False")
# twins
V('c13-twin-qu-rewrite', 'C13', 'C13.QUFIRST', BR,
  "question_type = QU_QUESTION if self._question_type is None and first_request else self._question_type", "question_type = self._question_type\n        if question_type is None and first_request:\n            question_type = QU_QUESTION", expect='silent')
V('c13-twin-window-flipped', 'C13', 'C13.HISTORY', HIS, "        if now - than > _DUPLICATE_QUESTION_INTERVAL:\n            return False\n        # The last question has more", "        if than + _DUPLICATE_QUESTION_INTERVAL < now:\n            return False\n        # The last question has more", expect='silent')

# ---------------------------------------------------------------- C16
V('c16-data-updated-before-test', 'C16', 'C16.GUARD', LSF,
  "    ) -> None:\n        if (\n            self.data == data\n",
  "    ) -> None:\n        previous, self.data = self.data, data\n        if (\n            previous == data\n")
V('c16-qu-exemption-dropped', 'C16', 'C16.GUARD', LSF,
  "            and not (self.last_message.is_query() and self.last_message.has_qu_question())\n", "")
V('c16-interval-ignored', 'C16', 'C16.GUARD', LSF,
  "            and (now - _DUPLICATE_PACKET_SUPPRESSION_INTERVAL) < self.last_time\n", "")
V('c16-interval-le', 'C16', 'C16.GUARD', LSF,
  "            and (now - _DUPLICATE_PACKET_SUPPRESSION_INTERVAL) < self.last_time\n", "            and (now - _DUPLICATE_PACKET_SUPPRESSION_INTERVAL) <= self.last_time\n")
V('c16-invalid-not-remembered', 'C16', 'C16.GUARD', LSF,
  "        msg = DNSIncoming(data, addr_port, scope, now)\n        self.data = data\n        self.last_time = now\n        self.last_message = msg\n        self.last_addrs = addrs\n        if msg.valid is True:",
  "        msg = DNSIncoming(data, addr_port, scope, now)\n        if msg.valid is True:\n            self.data = data\n            self.last_time = now\n            self.last_message = msg\n            self.last_addrs = addrs")
V('c16-time-not-remembered', 'C16', 'C16.GUARD', LSF,
  "        self.data = data\n        self.last_time = now\n        self.last_message = msg", "        self.data = data\n        self.last_message = msg")
V('c16-remember-after-dispatch', 'C16', 'C16.GUARD', LSF,
  "        self.data = data\n        self.last_time = now\n        self.last_message = msg\n", "",
  more=[(LSF, "        if TYPE_CHECKING:\n            assert self.transport is not None\n        self.handle_query_or_defer(msg, addr, port, self.transport, v6_flow_scope)", "        self.handle_query_or_defer(msg, addr, port, self.transport, v6_flow_scope)\n        self.data = data\n        self.last_time = now\n        self.last_message = msg"),
        (LSF, "        if not msg.is_query():\n            self._record_manager.async_updates_from_response(msg)\n            return", "        if not msg.is_query():\n            self._record_manager.async_updates_from_response(msg)\n            self.data = data\n            self.last_time = now\n            self.last_message = msg\n            return")])
V('c16-interval-zero', 'C16', 'C16.GUARD', 'const.py', "_DUPLICATE_PACKET_SUPPRESSION_INTERVAL = 1000  # ms", "_DUPLICATE_PACKET_SUPPRESSION_INTERVAL = 0  # ms")
V('c16-shared-protocol', 'C16', 'C16.GUARD', '_engine.py',
  "        for s in reader_sockets:\n            transport, protocol = await loop.create_datagram_endpoint(\n                lambda: AsyncListener(self.zc), sock=s  # type: ignore[arg-type, return-value]\n            )",
  "        shared = AsyncListener(self.zc)\n        for s in reader_sockets:\n            transport, protocol = await loop.create_datagram_endpoint(\n                lambda: shared, sock=s  # type: ignore[arg-type, return-value]\n            )")
# twins
V('c16-twin-guard-reordered', 'C16', 'C16.GUARD', LSF,
  "            self.data == data\n            # the same bytes from another source are another querier's\n            # datagram, not a link-layer duplicate of the last one\n            and self.last_addrs == addrs\n            and (now - _DUPLICATE_PACKET_SUPPRESSION_INTERVAL) < self.last_time\n            and self.last_message is not None\n",
  "            self.last_message is not None\n            and data == self.data\n            and addrs == self.last_addrs\n            and now < self.last_time + _DUPLICATE_PACKET_SUPPRESSION_INTERVAL\n", expect='silent')

# ---------------------------------------------------------------- C08
V('c08-text-without-override', 'C08', 'C08.GOODBYE', CORE,
  "        out.add_answer_at_time(info.dns_text(override_ttl=other_ttl), 0)", "        out.add_answer_at_time(info.dns_text(), 0)")
V('c08-service-not-added', 'C08', 'C08.GOODBYE', CORE,
  "        out.add_answer_at_time(info.dns_service(override_ttl=host_ttl), 0)\n", "")
V('c08-addresses-never', 'C08', 'C08.GOODBYE', CORE,
  "        if broadcast_addresses:\n            for record in info.get_address_and_nsec_records(override_ttl=host_ttl):", "        if broadcast_addresses and override_ttl is None:\n            for record in info.get_address_and_nsec_records(override_ttl=host_ttl):")
V('c08-lookup-before-removal', 'C08', 'C08.GOODBYE', CORE,
  "        info.set_server_if_missing()\n        self.registry.async_remove(info)\n        # If another server uses the same addresses, we do not want to send\n        # goodbye packets for the address records\n\n        assert info.server_key is not None\n        entries = self.registry.async_get_infos_server(info.server_key)",
  "        info.set_server_if_missing()\n        assert info.server_key is not None\n        entries = self.registry.async_get_infos_server(info.server_key)\n        self.registry.async_remove(info)")
V('c08-goodbye-ttl-1', 'C08', 'C08.GOODBYE', CORE,
  "self._async_broadcast_service(info, _UNREGISTER_TIME, 0, broadcast_addresses)", "self._async_broadcast_service(info, _UNREGISTER_TIME, 1, broadcast_addresses)")
V('c08-two-goodbyes', 'C08', 'C08.GOODBYE', CORE, "_REGISTER_BROADCASTS = 3", "_REGISTER_BROADCASTS = 2")
V('c08-ttl-not-threaded', 'C08', 'C08.GOODBYE', CORE,
  "            self.async_send(self.generate_service_broadcast(info, ttl, broadcast_addresses))", "            self.async_send(self.generate_service_broadcast(info, None, broadcast_addresses))")
V('c08-addresses-inverted', 'C08', 'C08.GOODBYE', CORE,
  "        broadcast_addresses = not bool(entries)", "        broadcast_addresses = bool(entries)")
V('c08-purge-removed', 'C08', 'C08.PURGE', CORE,
  "        self._async_remove_queued_answers(withdrawn)\n", "")
V('c08-purge-one-queue', 'C08', 'C08.PURGE', CORE,
  "        for queue in (self.out_queue, self.out_delay_queue):\n            queue._remove_answers_from_queue(answers)", "        for queue in (self.out_queue,):\n            queue._remove_answers_from_queue(answers)")
V('c08-purge-all-removed', 'C08', 'C08.PURGE', CORE,
  "        self._async_remove_queued_answers([record for record, _ in out.answers])\n", "")
V('c08-purge-conditional', 'C08', 'C08.PURGE', CORE,
  "        self._async_remove_queued_answers(withdrawn)\n", "        if broadcast_addresses:\n            self._async_remove_queued_answers(withdrawn)\n")
V('c08-sync-unregister-unawaited', 'C08', 'C08.COMPLETE', CORE,
  "            await_awaitable(self.async_unregister_service(info)),\n            self.loop,", "            self.async_unregister_service(info),\n            self.loop,")
V('c08-sync-update-unawaited', 'C08', 'C08.COMPLETE', CORE,
  "            await_awaitable(self.async_update_service(info)), self.loop,", "            self.async_update_service(info), self.loop,")
V('c08-announce-no-recheck', 'C08', 'C08.REVALIDATE', CORE,
  "            if ttl is None and self.registry.async_get_info_name(info.key) is not info:\n                # The service was unregistered while this task was waiting;\n                # announcing it now would follow its goodbye packets.\n                return\n", "")
V('c08-announce-recheck-first-only', 'C08', 'C08.REVALIDATE', CORE,
  "            if ttl is None and self.registry.async_get_info_name(info.key) is not info:", "            if i == 0 and ttl is None and self.registry.async_get_info_name(info.key) is not info:")
V('c08-purge-one-shot-iterator', 'C08', 'C08.PURGE', CORE,
  "        self._async_remove_queued_answers([record for record, _ in out.answers])\n", "        self._async_remove_queued_answers(record for record, _ in out.answers)\n", expect='silent')  # materialised once by the helper
# twins
V('c08-twin-recheck-membership', 'C08', 'C08.REVALIDATE', CORE,
  "            if ttl is None and self.registry.async_get_info_name(info.key) is not info:", "            if ttl is None and info not in self.registry.async_get_service_infos():", expect='silent')
V('c08-twin-purge-tuple', 'C08', 'C08.PURGE', CORE,
  "        self._async_remove_queued_answers([record for record, _ in out.answers])\n", "        self._async_remove_queued_answers(tuple(record for record, _ in out.answers))\n", expect='silent')
V('c08-twin-purge-inline', 'C08', 'C08.PURGE', CORE,
  "        self._async_remove_queued_answers(withdrawn)\n", "        self.out_queue._remove_answers_from_queue(dict.fromkeys(withdrawn, set()))\n        self.out_delay_queue._remove_answers_from_queue(dict.fromkeys(withdrawn, set()))\n", expect='silent')

# ---------------------------------------------------------------- C09
_REG_TAIL = "        await self.async_check_service(info, allow_name_change, cooperating_responders, strict)\n        # The default host name is the instance name: derive it only once\n        # the name is final (the check may have renamed the service)\n        info.set_server_if_missing()\n        self.registry.async_add(info)"
V('c09-register-before-probe', 'C09', 'C09.ORDER', CORE, _REG_TAIL,
  "        info.set_server_if_missing()\n        self.registry.async_add(info)\n        await self.async_check_service(info, allow_name_change, cooperating_responders, strict)")
V('c09-probe-not-awaited', 'C09', 'C09.ORDER', CORE, _REG_TAIL,
  "        asyncio.ensure_future(self.async_check_service(info, allow_name_change, cooperating_responders, strict))\n        info.set_server_if_missing()\n        self.registry.async_add(info)")
# F16 re-introduced: the default host name (= instance name) is derived before the check that may rename the service
V('c09-host-default-before-rename', 'C09', 'C09.ORDER', CORE, _REG_TAIL,
  "        info.set_server_if_missing()\n        await self.async_check_service(info, allow_name_change, cooperating_responders, strict)\n        self.registry.async_add(info)", names=['async_register_service'])
# the host default is missing altogether on the registration path (the registry indexes by host)
V('c09-host-default-dropped', 'C09', 'C09.ORDER', CORE, _REG_TAIL,
  "        await self.async_check_service(info, allow_name_change, cooperating_responders, strict)\n        self.registry.async_add(info)", names=['async_register_service'])
# twin: the default is derived early AND again once the name is final -- harmless only if the second derivation can take effect; it cannot
# (set_server_if_missing keeps a server that is set), so this one must FIRE as well
V('c09-host-default-early-and-late', 'C09', 'C09.ORDER', CORE,
  "            info.other_ttl = ttl\n\n        await self.async_wait_for_start()", "            info.other_ttl = ttl\n\n        info.set_server_if_missing()\n        await self.async_wait_for_start()", names=['async_register_service'])
V('c09-conflict-ignored', 'C09', 'C09.ORDER', CORE,
  "                if not allow_name_change:\n                    raise NonUniqueNameException\n", "                if not allow_name_change:\n                    break\n")
V('c09-rename-keeps-count', 'C09', 'C09.ORDER', CORE,
  "                next_time = now\n                i = 0\n", "                next_time = now\n")
V('c09-send-before-check', 'C09', 'C09.ORDER', CORE,
  "        while i < _REGISTER_BROADCASTS:\n            # check for a name conflict\n            while self.cache.current_entry_with_name_and_alias(info.type, info.name):",
  "        while i < _REGISTER_BROADCASTS:\n            if now >= next_time:\n                self.async_send(self.generate_service_query(info))\n            # check for a name conflict\n            while self.cache.current_entry_with_name_and_alias(info.type, info.name):")
V('c09-announce-override-ttl', 'C09', 'C09.ORDER', CORE,
  "        self.registry.async_add(info)\n        return asyncio.ensure_future(self._async_broadcast_service(info, _REGISTER_TIME, None))", "        self.registry.async_add(info)\n        return asyncio.ensure_future(self._async_broadcast_service(info, _REGISTER_TIME, 120))")
V('c09-rename-from-1', 'C09', 'C09.ORDER', CORE, "        next_instance_number = 2\n", "        next_instance_number = 1\n")
V('c09-probe-qm', 'C09', 'C09.SHAPE', CORE,
  "out.add_question(DNSQuestion(info.type, _TYPE_PTR, _CLASS_IN | _CLASS_UNIQUE))", "out.add_question(DNSQuestion(info.type, _TYPE_PTR, _CLASS_IN))")
V('c09-probe-for-name', 'C09', 'C09.SHAPE', CORE,
  "out.add_question(DNSQuestion(info.type, _TYPE_PTR, _CLASS_IN | _CLASS_UNIQUE))", "out.add_question(DNSQuestion(info.name, _TYPE_PTR, _CLASS_IN | _CLASS_UNIQUE))")
V('c09-probe-no-authority', 'C09', 'C09.SHAPE', CORE,
  "        out.add_authorative_answer(info.dns_pointer())\n        return out", "        return out")
V('c09-check-150', 'C09', 'C09.CONST', 'const.py', "_CHECK_TIME = 175  # ms", "_CHECK_TIME = 150  # ms")
V('c09-register-time', 'C09', 'C09.CONST', 'const.py', "_REGISTER_TIME = 225  # ms", "_REGISTER_TIME = 125  # ms")
V('c09-probe-spacing-other-const', 'C09', 'C09.CONST', CORE, "            next_time += _CHECK_TIME", "            next_time += _UNREGISTER_TIME")
V('c09-two-probes', 'C09', 'C09.CONST', CORE, "        while i < _REGISTER_BROADCASTS:\n            # check for a name conflict", "        while i < _REGISTER_BROADCASTS - 1:\n            # check for a name conflict")
V('c09-no-sleep-between', 'C09', 'C09.CONST', CORE, "            if i != 0:\n                await asyncio.sleep(millis_to_seconds(interval))\n            if ttl is None", "            if i == 0:\n                await asyncio.sleep(millis_to_seconds(interval))\n            if ttl is None")
V('c09-duplicate-overwrites', 'C09', 'C09.UNIQUE', RG,
  "        if info.key in self._services:\n            raise ServiceNameAlreadyRegistered\n", "")
V('c09-duplicate-case-sensitive', 'C09', 'C09.UNIQUE', RG, "        if info.key in self._services:", "        if info.name in self._services:")
# twins
V('c09-twin-loop-bound', 'C09', 'C09.CONST', CORE, "        while i < _REGISTER_BROADCASTS:\n            # check for a name conflict", "        while _REGISTER_BROADCASTS > i:\n            # check for a name conflict", expect='silent')

# ---------------------------------------------------------------- C18
V('c18-expiry-rejection-dropped', 'C18', 'C18.EXPIRY', INF,
  "        if record.is_expired(now):\n            return False\n\n        record_key = record.key", "        record_key = record.key")
V('c18-expiry-after-write', 'C18', 'C18.EXPIRY', INF,
  "        if record_type is DNSText:\n            dns_text_record = record", "        if record_type is DNSText and not record.is_expired(now):\n            dns_text_record = record",
  more=[(INF, "        if record.is_expired(now):\n            return False\n\n        record_key = record.key", "        record_key = record.key")])
V('c18-cache-addresses-unfiltered', 'C18', 'C18.EXPIRY', INF,
  "            if record.is_expired(now):\n                continue\n            ip_addr = get_ip_address_object_from_record(record)", "            ip_addr = get_ip_address_object_from_record(record)")
V('c18-new-unguarded-writer', 'C18', 'C18.EXPIRY', INF,
  "    def set_server_if_missing(self) -> None:", "    def _adopt(self, record: DNSService) -> None:\n        self.port = record.port\n        self.server = record.server\n        self.server_key = record.server_key\n\n    def set_server_if_missing(self) -> None:")
V('c18-address-any-host', 'C18', 'C18.MATCH', INF,
  "        if record_type is DNSAddress and record_key == self.server_key:", "        if record_type is DNSAddress:")
V('c18-srv-any-instance', 'C18', 'C18.MATCH', INF,
  "        if record_key != self.key:\n            return False\n\n        if record_type is DNSText:", "        if record_type is DNSText:")
V('c18-txt-from-host', 'C18', 'C18.MATCH', INF,
  "        if record_key != self.key:\n            return False\n\n        if record_type is DNSText:", "        if record_key != self.key and record_key != self.server_key:\n            return False\n\n        if record_type is DNSText:")
V('c18-cache-hit-still-sends', 'C18', 'C18.BOUND', INF,
  "        if self._load_from_cache(zc, now):\n            return True\n", "        loaded = self._load_from_cache(zc, now)\n")
V('c18-no-deadline-test', 'C18', 'C18.BOUND', INF,
  "                if last <= now:\n                    return False\n", "")
V('c18-deadline-after-send', 'C18', 'C18.BOUND', INF,
  "                if last <= now:\n                    return False\n                if next_ <= now:", "                if next_ <= now:",
  more=[(INF, "                await self.async_wait(min(next_, last) - now, zc.loop)", "                if last <= now:\n                    return False\n                await self.async_wait(min(next_, last) - now, zc.loop)")])
V('c18-wait-past-deadline', 'C18', 'C18.BOUND', INF,
  "                await self.async_wait(min(next_, last) - now, zc.loop)", "                await self.async_wait(next_ - now, zc.loop)")
V('c18-deadline-doubled', 'C18', 'C18.BOUND', INF, "        last = now + timeout\n", "        last = now + timeout * 2\n")
V('c18-complete-without-address', 'C18', 'C18.BOUND', INF,
  "        return bool(self.text is not None and (self._ipv4_addresses or self._ipv6_addresses))", "        return bool(self.text is not None)")
V('c18-send-empty-query', 'C18', 'C18.BOUND', INF,
  "                    if out.questions:\n", "                    if True:\n")
# twins
V('c18-twin-deadline-flipped', 'C18', 'C18.BOUND', INF,
  "                if last <= now:\n                    return False\n", "                if now >= last:\n                    return False\n", expect='silent')

V('c01-cstr-off-by-one', 'C01', 'C01.PRIMS', INCF,
  "        info = self.data[self.offset : self.offset + length].decode('utf-8', 'replace')\n        self.offset += length\n        return info",
  "        info = self.data[self.offset : self.offset + length].decode('utf-8', 'replace')\n        self.offset += length + 1\n        return info")
V('c01-cstr-length-not-skipped', 'C01', 'C01.PRIMS', INCF,
  "        length = self.view[self.offset]\n        self.offset += 1\n        info = self.data[self.offset : self.offset + length].decode('utf-8', 'replace')",
  "        length = self.view[self.offset]\n        info = self.data[self.offset : self.offset + length].decode('utf-8', 'replace')\n        self.offset += 1")
V('c01-raw-read-short', 'C01', 'C01.PRIMS', INCF,
  "        info = self.data[self.offset : self.offset + length]\n        self.offset += length\n        return info", "        info = self.data[self.offset : self.offset + length - 1]\n        self.offset += length\n        return info")
V('c01-additionals-not-read', 'C01', 'C01.PRIMS', INCF,
  "        n = self._num_answers + self._num_authorities + self._num_additionals", "        n = self._num_answers + self._num_authorities")
V('c01-cstr-writer-order', 'C01', 'C01.PRIMS', OUTF,
  "        if length > 256:\n            raise NamePartTooLongException\n        self._write_byte(length)\n        self.write_string(value)", "        if length > 256:\n            raise NamePartTooLongException\n        self.write_string(value)\n        self._write_byte(length)")
V('c01-twin-prims-locals', 'C01', 'C01.PRIMS', INCF,
  "        info = self.data[self.offset : self.offset + length]\n        self.offset += length\n        return info", "        start = self.offset\n        self.offset = start + length\n        return self.data[start : start + length]", expect='silent')

V('c15-timer-del-unguarded', 'C15', 'C15.CONTAINERS', LSF,
  "        if addr in self._timers:\n            self._timers.pop(addr).cancel()", "        self._timers.pop(addr).cancel()", names=['_timers'])
V('c15-deferred-subscript', 'C15', 'C15.CONTAINERS', LSF,
  "        packets = self._deferred.pop(addr, [])", "        packets = self._deferred.pop(addr)", names=['_deferred'])
V('c15-queue-head-unguarded', 'C15', 'C15.CONTAINERS', MQF,
  "        if len(self.queue):\n            # If there are still groups in the queue that are not ready to send\n            # be sure we schedule them to go out later\n            loop.call_at",
  "        if answers:\n            # If there are still groups in the queue that are not ready to send\n            # be sure we schedule them to go out later\n            loop.call_at", names=['queue'])
V('c15-history-del-direct', 'C15', 'C15.CONTAINERS', QHF,
  "                self.question_history.add_question_at_time(question, now, known_answers_set)", "                self.question_history.add_question_at_time(question, now, known_answers_set)\n                del self.question_history._history[question]", expect='silent')
V('c15-bucket-before-additionals', 'C15', 'C15.CONTAINERS', QHF,
  "        self._additionals.update(answers)\n        self._ucast.update(answers)", "        self._ucast.update(answers)", names=['_ucast'])
V('c15-twin-timer-get', 'C15', 'C15.CONTAINERS', LSF,
  "        if addr in self._timers:\n            self._timers.pop(addr).cancel()", "        timer = self._timers.pop(addr, None)\n        if timer is not None:\n            timer.cancel()", expect='silent')
V('c15-twin-queue-truthy', 'C15', 'C15.CONTAINERS', MQF,
  "        if len(self.queue):\n            # If there are still groups in the queue that are not ready to send", "        if self.queue:\n            # If there are still groups in the queue that are not ready to send", expect='silent')

V('c19-fast-path-known-type', 'C19', 'C19.CASCADE', NM,
  "    if len(type_) > 256:\n        # https://datatracker.ietf.org/doc/html/rfc6763#section-7.2\n        raise BadTypeInNameException(\"Full name (%s) must be > 256 bytes\" % type_)\n",
  "    if len(type_) > 256:\n        # https://datatracker.ietf.org/doc/html/rfc6763#section-7.2\n        raise BadTypeInNameException(\"Full name (%s) must be > 256 bytes\" % type_)\n    if type_.count('.') == 3 and type_.startswith('_') and type_.endswith(_TCP_PROTOCOL_LOCAL_TRAILER):\n        return type_\n")
V('c19-hyphen-check-dropped', 'C19', 'C19.CASCADE', NM,
  "        if '--' in test_service_name:\n            raise BadTypeInNameException(\"Service name (%s) must not contain '--'\" % test_service_name)\n\n", "")

V('c19-charset-only-strict', 'C19', 'C19.TABLE', NM,
  "        if not allowed_characters_re.search(test_service_name):", "        if strict and not allowed_characters_re.search(test_service_name):", names=['charset'])
V('c19-letter-check-inverted', 'C19', 'C19.TABLE', NM,
  "        if not _HAS_A_TO_Z.search(test_service_name):", "        if strict and not _HAS_A_TO_Z.search(test_service_name) and len(test_service_name) > 1:", names=['has-letter'])
V('c19-control-check-skipped-when-short', 'C19', 'C19.TABLE', NM,
  "        if _HAS_ASCII_CONTROL_CHARS.search(remaining[0]):", "        if length > 8 and _HAS_ASCII_CONTROL_CHARS.search(remaining[0]):")
V('c19-twin-checks-merged', 'C19', 'C19.TABLE', NM,
  "        if '--' in test_service_name:\n            raise BadTypeInNameException(\"Service name (%s) must not contain '--'\" % test_service_name)\n\n        if '-' in (test_service_name[0], test_service_name[-1]):\n            raise BadTypeInNameException(\n                \"Service name (%s) may not start or end with '-'\" % test_service_name\n            )",
  "        if '--' in test_service_name or '-' in (test_service_name[0], test_service_name[-1]):\n            raise BadTypeInNameException(\"Service name (%s) has a misplaced '-'\" % test_service_name)", expect='silent')

V('c03-nsec-always-answer', 'C03', 'C03.ADDRNSEC', QHF,
  "            elif type_ in missing_types:\n                assert service.server", "            elif missing_types:\n                assert service.server")
V('c03-other-type-as-answer', 'C03', 'C03.ADDRNSEC', QHF,
  "                if dns_address.type != type_:\n                    additionals.add(dns_address)\n                elif not known_answers.suppresses(dns_address):",
  "                if not known_answers.suppresses(dns_address):")
V('c03-seen-only-answers', 'C03', 'C03.ADDRNSEC', QHF,
  "                seen_types.add(dns_address.type)\n                if dns_address.type != type_:", "                if dns_address.type != type_:",
  more=[(QHF, "                elif not known_answers.suppresses(dns_address):\n                    answers.append(dns_address)", "                elif not known_answers.suppresses(dns_address):\n                    seen_types.add(dns_address.type)\n                    answers.append(dns_address)")])
V('c03-nsec-without-answers', 'C03', 'C03.ADDRNSEC', QHF,
  "            if answers:\n                if missing_types:", "            if answers or missing_types:\n                if missing_types:")

V('c15-twin-nested-shortcircuit', 'C15', 'C15.CONTAINERS', QHF,
  "            if len(self._questions) == 1:\n                question = self._questions[0]\n                if question.type in _RESPOND_IMMEDIATE_TYPES:\n                    self._mcast_now.add(answer)\n                    continue",
  "            if self._is_probe or (len(self._questions) == 1 and self._questions[0].type in _RESPOND_IMMEDIATE_TYPES):\n                self._mcast_now.add(answer)\n                continue", expect='silent')

# ---------------------------------------------------------------- round 7: behaviour-preserving counterparts of seeded changes
V('c20-twin-hash-helper', 'C20', 'C20.CONGRUENCE', DNS,
  "        self._hash = hash((self.key, type_, self.class_, next_name, *self.rdtypes))",
  "        self._hash = self._identity_hash(next_name, *self.rdtypes)",
  more=[(DNS, "        super().__init__(name, type_, class_)\n        self.ttl = ttl\n        self.created = created or current_time_millis()\n",
         "        super().__init__(name, type_, class_)\n        self.ttl = ttl\n        self.created = created or current_time_millis()\n\n    def _identity_hash(self, *rdata: Any) -> int:\n        return hash((self.key, self.type, self.class_, *rdata))\n")],
  expect='silent')
V('c20-hash-helper-unsorted', 'C20', 'C20.CONGRUENCE', DNS,
  "        self._hash = hash((self.key, type_, self.class_, next_name, *self.rdtypes))",
  "        self._hash = self._identity_hash(next_name, *rdtypes)",
  more=[(DNS, "        super().__init__(name, type_, class_)\n        self.ttl = ttl\n        self.created = created or current_time_millis()\n",
         "        super().__init__(name, type_, class_)\n        self.ttl = ttl\n        self.created = created or current_time_millis()\n\n    def _identity_hash(self, *rdata: Any) -> int:\n        return hash((self.key, self.type, self.class_, *rdata))\n")])
V('c20-twin-scope-helper', 'C20', 'C20.CONGRUENCE', DNS,
  "            and self.scope_id == other.scope_id\n", "            and self._same_scope(other)\n",
  more=[(DNS, "    def _eq(self, other) -> bool:  # type: ignore[no-untyped-def]\n        return (\n            self.address == other.address\n",
         "    def _same_scope(self, other) -> bool:  # type: ignore[no-untyped-def]\n        if self.scope_id == other.scope_id:\n            return True\n        return False\n\n    def _eq(self, other) -> bool:  # type: ignore[no-untyped-def]\n        return (\n            self.address == other.address\n")],
  expect='silent')
V('c14-twin-more-inline', 'C14', 'C14.TC', '_protocol/outgoing.py',
  "            has_more_to_add = self._has_more_to_add(\n                questions_offset, answer_offset, authority_offset, additional_offset\n            )\n",
  "            has_more_to_add = (\n                questions_offset < len(self.questions)\n                or len(self.answers) > answer_offset\n                or authority_offset < len(self.authorities)\n                or additional_offset < len(self.additionals)\n            )\n",
  expect='silent')
V('c14-more-inline-no-additionals', 'C14', 'C14.SECTIONS', '_protocol/outgoing.py',
  "            has_more_to_add = self._has_more_to_add(\n                questions_offset, answer_offset, authority_offset, additional_offset\n            )\n",
  "            has_more_to_add = (\n                questions_offset < len(self.questions)\n                or answer_offset < len(self.answers)\n                or authority_offset < len(self.authorities)\n            )\n")
V('c09-twin-spacing-else', 'C09', 'C09.CONST', CORE,
  "            if now < next_time:\n                await self.async_wait(next_time - now)\n                now = current_time_millis()\n                continue\n\n            self.async_send(self.generate_service_query(info))\n            i += 1\n            next_time += _CHECK_TIME\n",
  "            if next_time <= now:\n                self.async_send(self.generate_service_query(info))\n                i += 1\n                next_time += _CHECK_TIME\n            else:\n                await self.async_wait(next_time - now)\n                now = current_time_millis()\n",
  expect='silent')
V('c19-twin-txt-sep-else', 'C19', 'C19.TXT', '_services/info.py',
  "            record = key\n            if value is not None:\n                if not isinstance(value, bytes):\n                    value = str(value).encode('utf-8')\n                    properties_contain_str = True\n                record += b'=' + value\n            list_.append(record)\n",
  "            if value is None:\n                record = key\n            else:\n                if not isinstance(value, bytes):\n                    value = str(value).encode('utf-8')\n                    properties_contain_str = True\n                record = key + b'=' + value\n            list_.append(record)\n",
  expect='silent')
V('c18-twin-load-helper', 'C18', 'C18.BOUND', '_services/info.py',
  "            for record in self._get_address_records_from_cache_by_type(zc, _TYPE_A):\n                self._process_record_threadsafe(zc, record, now)\n            for record in self._get_address_records_from_cache_by_type(zc, _TYPE_AAAA):\n                self._process_record_threadsafe(zc, record, now)\n        return self._is_complete\n",
  "            self._load_known_host_addresses(zc, now)\n        return self._is_complete\n\n    def _load_known_host_addresses(self, zc: 'Zeroconf', now: float_) -> None:\n        for type_ in (_TYPE_A, _TYPE_AAAA):\n            for record in self._get_address_records_from_cache_by_type(zc, type_):\n                self._process_record_threadsafe(zc, record, now)\n",
  expect='silent')
V('c18-load-helper-a-only', 'C18', 'C18.BOUND', '_services/info.py',
  "            for record in self._get_address_records_from_cache_by_type(zc, _TYPE_A):\n                self._process_record_threadsafe(zc, record, now)\n            for record in self._get_address_records_from_cache_by_type(zc, _TYPE_AAAA):\n                self._process_record_threadsafe(zc, record, now)\n        return self._is_complete\n",
  "            self._load_known_host_addresses(zc, now)\n        return self._is_complete\n\n    def _load_known_host_addresses(self, zc: 'Zeroconf', now: float_) -> None:\n        for type_ in (_TYPE_A,):\n            for record in self._get_address_records_from_cache_by_type(zc, type_):\n                self._process_record_threadsafe(zc, record, now)\n")
V('c15-twin-str-replace', 'C15', 'C15.ESCAPE', '_protocol/incoming.py',
  "        info = self.data[self.offset : self.offset + length].decode('utf-8', 'replace')",
  "        info = str(self.data[self.offset : self.offset + length], 'utf-8', 'replace')", expect='silent')
V('c15-str-strict-decode', 'C15', 'C15.ESCAPE', '_protocol/incoming.py',
  "        info = self.data[self.offset : self.offset + length].decode('utf-8', 'replace')",
  "        info = str(self.data[self.offset : self.offset + length], 'utf-8')")
V('c02-str-strict-decode', 'C02', 'C02.TOTAL', '_protocol/incoming.py',
  "        info = self.data[self.offset : self.offset + length].decode('utf-8', 'replace')",
  "        info = str(self.data[self.offset : self.offset + length], encoding='utf-8')")
V('c05-twin-reader-renamed', 'C05', 'C05.PURGE', '_services/info.py',
  "    def _get_ip_addresses_from_cache_lifo(", "    def _fresh_addresses_newest_first(",
  more=[('_services/info.py', '"List[IPv6Address]", self._get_ip_addresses_from_cache_lifo(zc, now, _TYPE_AAAA)', '"List[IPv6Address]", self._fresh_addresses_newest_first(zc, now, _TYPE_AAAA)'),
        ('_services/info.py', "self._ipv6_addresses = self._get_ip_addresses_from_cache_lifo(zc, now, _TYPE_AAAA)", "self._ipv6_addresses = self._fresh_addresses_newest_first(zc, now, _TYPE_AAAA)"),
        ('_services/info.py', '"List[IPv4Address]", self._get_ip_addresses_from_cache_lifo(zc, now, _TYPE_A)', '"List[IPv4Address]", self._fresh_addresses_newest_first(zc, now, _TYPE_A)'),
        ('_services/info.py', "self._ipv4_addresses = self._get_ip_addresses_from_cache_lifo(zc, now, _TYPE_A)", "self._ipv4_addresses = self._fresh_addresses_newest_first(zc, now, _TYPE_A)")],
  expect='silent')

# ---------------------------------------------------------------- defects F17-F19 re-introduced
V('c02-memo-miss-by-truth', 'C02', 'C02.NAMELEN', INCF,
  "            if linked_labels is None:\n", "            if not linked_labels:\n", names=['_decode_labels_at_offset'])
V('c02-twin-memo-miss-not-in', 'C02', 'C02.NAMELEN', INCF,
  "            linked_labels = self._name_cache.get(link_py_int)\n            if linked_labels is None:\n",
  "            linked_labels = self._name_cache.get(link_py_int, None)\n            if None is linked_labels:\n", expect='silent')
V('c05-flush-renews-expired', 'C05', 'C05.REFRESH', CA,
  "                    and not record.is_expired(now + _ONE_SECOND)\n", "", names=['async_mark_unique_records_older_than_1s_to_expire'])
V('c06-flush-renews-expired', 'C06', 'C06.FLOORFLUSH', CA,
  "                    and not record.is_expired(now + _ONE_SECOND)\n", "", names=['async_mark_unique_records_older_than_1s_to_expire'])
V('c05-twin-flush-skips-expired-now', 'C05', 'C05.REFRESH', CA,
  "                    and not record.is_expired(now + _ONE_SECOND)\n", "                    and not record.is_expired(now)\n", expect='silent')
V('c12-first-packet-questions-only', 'C12', 'C12.ROUTE', QHF,
  "        questions = [question for msg in msgs for question in msg._questions]\n", "        msg = msgs[0]\n        questions = msg._questions\n", names=['async_response'])
V('c12-last-packet-questions-only', 'C12', 'C12.ROUTE', QHF,
  "        questions = [question for msg in msgs for question in msg._questions]\n", "        questions = msgs[-1]._questions\n", names=['async_response'])
V('c12-twin-questions-extend-loop', 'C12', 'C12.ROUTE', QHF,
  "        questions = [question for msg in msgs for question in msg._questions]\n", "        questions = []\n        for packet in msgs:\n            questions.extend(packet._questions)\n", expect='silent')

# ---------------------------------------------------------------- defects F21-F23 re-introduced
V('c18-single-pick-srv', 'C18', 'C18.BOUND', INF,
  "        for cached_srv_record in cache.get_all_by_details(self._name, _TYPE_SRV, _CLASS_IN):\n            self._process_record_threadsafe(zc, cached_srv_record, now)\n",
  "        cached_srv_record = cache.get_by_details(self._name, _TYPE_SRV, _CLASS_IN)\n        if cached_srv_record:\n            self._process_record_threadsafe(zc, cached_srv_record, now)\n", names=['_load_from_cache'])
V('c18-single-pick-txt', 'C18', 'C18.BOUND', INF,
  "        for cached_txt_record in cache.get_all_by_details(self._name, _TYPE_TXT, _CLASS_IN):\n            self._process_record_threadsafe(zc, cached_txt_record, now)\n",
  "        cached_txt_record = cache.get_by_details(self._name, _TYPE_TXT, _CLASS_IN)\n        if cached_txt_record:\n            self._process_record_threadsafe(zc, cached_txt_record, now)\n", names=['_load_from_cache'])
V('c09-defaulted-host-stays', 'C09', 'C09.ORDER', INF,
  "        if self.server_key is not None and self.server_key == self.key:\n            # The host name was defaulted to the instance name (see\n            # set_server_if_missing), so it follows the instance name\n            self.server = name\n            self.server_key = name.lower()\n            self._dns_address_cache = None\n            self._get_address_and_nsec_records_cache = None\n", "", names=['ServiceInfo.name'])
V('c09-defaulted-host-compared-after-rename', 'C09', 'C09.ORDER', INF,
  "        self._name = name\n        self.key = name.lower()\n        self._dns_service_cache = None\n",
  "        self._name = name\n        self.key = name.lower()\n        if self.server_key is not None and self.server_key == self.key:\n            self.server = name\n            self.server_key = name.lower()\n        self._dns_service_cache = None\n", names=['ServiceInfo.name'],
  more=[(INF, "        if self.server_key is not None and self.server_key == self.key:\n            # The host name was defaulted to the instance name (see\n            # set_server_if_missing), so it follows the instance name\n            self.server = name\n            self.server_key = name.lower()\n            self._dns_address_cache = None\n            self._get_address_and_nsec_records_cache = None\n", "")])
V('c11-duplicate-guard-ignores-source', 'C11', 'C11.ROUTE', LSF,
  "            and self.last_addrs == addrs\n", "", names=['_process_datagram_at_time'])
V('c16-duplicate-guard-ignores-source', 'C16', 'C16.GUARD', LSF,
  "            and self.last_addrs == addrs\n", "", names=['_process_datagram_at_time'])
V('c16-source-not-remembered', 'C16', 'C16.GUARD', LSF,
  "        self.last_addrs = addrs\n", "", names=['_process_datagram_at_time'])

# ---------------------------------------------------------------- C15.ESCAPE unbound local after a swallowed exception
V('c15-handler-falls-through-unbound', 'C15', 'C15.ESCAPE', CORE,
  "            self.log_warning_once(\"Dropping %r as it contains a name part that is too long\", out)\n            return\n",
  "            self.log_warning_once(\"Dropping %r as it contains a name part that is too long\", out)\n", names=['async_send'])
V('c15-twin-handler-binds-default', 'C15', 'C15.ESCAPE', CORE,
  "            self.log_warning_once(\"Dropping %r as it contains a name part that is too long\", out)\n            return\n",
  "            self.log_warning_once(\"Dropping %r as it contains a name part that is too long\", out)\n            packets = []\n", expect='silent')

# ---------------------------------------------------------------- defect F24 re-introduced
V('c16-qu-exemption-for-responses-too', 'C16', 'C16.GUARD', LSF,
  "            and not (self.last_message.is_query() and self.last_message.has_qu_question())\n",
  "            and not self.last_message.has_qu_question()\n", names=['_process_datagram_at_time'])
V('c16-twin-qu-exemption-demorgan', 'C16', 'C16.GUARD', LSF,
  "            and not (self.last_message.is_query() and self.last_message.has_qu_question())\n",
  "            and (not self.last_message.has_qu_question() or not self.last_message.is_query())\n", expect='silent')

# ---------------------------------------------------------------- round 10: iterative pointer following, resume position kept (twin) / lost
_ITER_OLD_TAIL = """            linked_labels = self._name_cache.get(link_py_int)
            if linked_labels is None:
                linked_labels = []
                seen_pointers.add(link_py_int)
                if len(seen_pointers) > MAX_DNS_LABELS:
                    # Every pointer we follow recurses one level deeper, a name
                    # cannot have more pointers than labels
                    raise IncomingDecodeError(
                        f"Maximum dns compression pointers reached at {off} from {self.source}"
                    )
                self._decode_labels_at_offset(link, linked_labels, seen_pointers)
                self._name_cache[link_py_int] = linked_labels
            labels.extend(linked_labels)
            if len(labels) > MAX_DNS_LABELS:
                raise IncomingDecodeError(
                    f"Maximum dns labels reached while processing pointer at {off} from {self.source}"
                )
            return off + DNS_COMPRESSION_POINTER_LEN
"""
_ITER_NEW_TAIL = """            %s
            linked_labels = self._name_cache.get(link_py_int)
            if linked_labels is not None:
                labels.extend(linked_labels)
                if len(labels) > MAX_DNS_LABELS:
                    raise IncomingDecodeError(
                        f"Maximum dns labels reached while processing pointer at {off} from {self.source}"
                    )
                return resume_at
            seen_pointers.add(link_py_int)
            if len(seen_pointers) > MAX_DNS_LABELS:
                raise IncomingDecodeError(
                    f"Maximum dns compression pointers reached at {off} from {self.source}"
                )
            off = link
"""
_ITER_MORE = [
    (INCF, "        view = self.view\n        while off < self._data_len:\n            length = view[off]\n            if length == 0:\n                return off + DNS_COMPRESSION_HEADER_LEN\n",
     "        view = self.view\n        resume_at = 0\n        while off < self._data_len:\n            length = view[off]\n            if length == 0:\n                return resume_at or off + DNS_COMPRESSION_HEADER_LEN\n"),
]
V('c01-iterative-pointers-resume-overwritten', 'C01', 'C01.PRIMS', INCF, _ITER_OLD_TAIL, _ITER_NEW_TAIL % "resume_at = off + DNS_COMPRESSION_POINTER_LEN", names=['resume'], more=_ITER_MORE)
V('c02-iterative-pointers-resume-overwritten', 'C02', 'C02.FAITHFUL', INCF, _ITER_OLD_TAIL, _ITER_NEW_TAIL % "resume_at = off + DNS_COMPRESSION_POINTER_LEN", names=['resume'], more=_ITER_MORE)
V('c01-twin-iterative-pointers-resume-kept', 'C01', 'C01.PRIMS', INCF, _ITER_OLD_TAIL, _ITER_NEW_TAIL % "if not resume_at:\n                resume_at = off + DNS_COMPRESSION_POINTER_LEN", expect='silent', more=_ITER_MORE,
  not_for=['C02'])  # same names and positions, but the pointer targets are no longer memoised: the work bound C02 speaks of is not preserved

# ---------------------------------------------------------------- round 10: section-count bound in the header reader
_HDR_OLD = "        self._num_additionals = view[offset + 10] << 8 | view[offset + 11]\n"
_HDR_NEW = _HDR_OLD + """        num_records = self._num_answers + self._num_authorities + self._num_additionals
        min_length = self._num_questions * 5 + num_records * 11
        if self.offset + min_length %s self._data_len:
            raise IncomingDecodeError(f"Section counts need {min_length} bytes from {self.source}")
"""
V('c02-count-bound-refuses-exact-fit', 'C02', 'C02.FAITHFUL', INCF, _HDR_OLD, _HDR_NEW % '>=', names=['_read_header'])
V('c02-count-bound-overestimates-entry', 'C02', 'C02.FAITHFUL', INCF, _HDR_OLD, (_HDR_NEW % '>').replace('* 11', '* 12'), names=['_read_header'])
V('c02-twin-count-bound-strict', 'C02', 'C02.FAITHFUL', INCF, _HDR_OLD, _HDR_NEW % '>', expect='silent')

# ---------------------------------------------------------------- round 10: event dispatcher iterates the live handler list
SVC = '_services/__init__.py'
V('c04-signal-fire-live-list', 'C04', 'C04.FLUSH', SVC, "        for h in self._handlers[:]:", "        for h in self._handlers:", names=['Signal.fire'])
V('c04-twin-signal-fire-list-copy', 'C04', 'C04.FLUSH', SVC, "        for h in self._handlers[:]:", "        for h in list(self._handlers):", expect='silent')

# ---------------------------------------------------------------- round 10: remaining TTL / refresh
V('c13-remaining-ttl-rounded-up', 'C13', 'C13.KNOWN', DNS,
  "        remain = (self.created + (_EXPIRE_FULL_TIME_MS * self.ttl) - now) / 1000.0\n        return 0 if remain < 0 else remain",
  "        remain = self.created + (_EXPIRE_FULL_TIME_MS * self.ttl) - now\n        if remain <= 0:\n            return 0\n        return int(-(-remain // _EXPIRE_FULL_TIME_MS))", names=['get_remaining_ttl'])
V('c13-twin-remaining-ttl-two-returns', 'C13', 'C13.KNOWN', DNS,
  "        remain = (self.created + (_EXPIRE_FULL_TIME_MS * self.ttl) - now) / 1000.0\n        return 0 if remain < 0 else remain",
  "        remain = (self.created + (_EXPIRE_FULL_TIME_MS * self.ttl) - now) / 1000.0\n        if remain < 0:\n            return 0\n        return remain", expect='silent')
V('c05-refresh-never-shortens', 'C05', 'C05.OWN', DNS,
  "        self.set_created_ttl(other.created, other.ttl)",
  "        if other.get_expiration_time(100) >= self.get_expiration_time(100):\n            self.set_created_ttl(other.created, other.ttl)", names=['reset_ttl'])
V('c10-refresh-never-shortens', 'C10', 'C10.CONST', DNS,
  "        self.set_created_ttl(other.created, other.ttl)",
  "        if other.get_expiration_time(100) >= self.get_expiration_time(100):\n            self.set_created_ttl(other.created, other.ttl)", names=['reset_ttl'])

# ---------------------------------------------------------------- round 10: listener snapshot kept across the two phases
RMF = '_handlers/record_manager.py'
V('c06-complete-phase-reuses-first-snapshot', 'C06', 'C06.SNAPSHOT', RMF,
  "        for listener in self.listeners.copy():\n            listener.async_update_records_complete()",
  "        listeners = getattr(self, '_notified', None) or self.listeners.copy()\n        for listener in listeners:\n            listener.async_update_records_complete()", names=['async_updates_complete'])
V('c06-twin-snapshot-in-a-local', 'C06', 'C06.SNAPSHOT', RMF,
  "        for listener in self.listeners.copy():\n            listener.async_update_records_complete()",
  "        listeners = self.listeners.copy()\n        for listener in listeners:\n            listener.async_update_records_complete()", expect='silent')

# ---------------------------------------------------------------- round 10: memo kept across re-registration; goodbyes under a deadline
INFOF = '_services/info.py'
_CLR_OLD = "        self._dns_address_cache = None\n        self._dns_pointer_cache = None\n        self._dns_service_cache = None\n        self._dns_text_cache = None\n        self._get_address_and_nsec_records_cache = None\n"
_CLR_NEW = "        self._dns_pointer_cache = None\n        self._dns_service_cache = None\n        self._dns_text_cache = None\n        if not self._dns_address_cache or self._dns_address_cache[0].ttl != self.host_ttl:\n            self._dns_address_cache = None\n            self._get_address_and_nsec_records_cache = None\n"
V('c08-address-memo-survives-clear', 'C08', 'C08.PURGE', INFOF, _CLR_OLD, _CLR_NEW, names=['async_clear_cache'])
V('c03-address-memo-survives-clear', 'C03', 'C03.MEMO', INFOF, _CLR_OLD, _CLR_NEW, names=['async_clear_cache'])
V('c08-goodbyes-under-deadline', 'C08', 'C08.COMPLETE', 'asyncio.py', "        await self.async_unregister_all_services()",
  "        with contextlib.suppress(asyncio.TimeoutError):\n            await asyncio.wait_for(self.async_unregister_all_services(), timeout=0.375)", names=['async_close'])

# ---------------------------------------------------------------- round 10: who may push onto the refresh heap; ordering of tuples; address parser
BRF = '_services/browser.py'
_RS_OLD = "        expire_time_millis = pointer.get_expiration_time(100)\n        self._schedule_ptr_refresh(pointer, expire_time_millis, refresh_time_millis)\n\n    def schedule_rescue_query("
_RS_NEW = "        self.schedule_ptr_first_refresh(pointer)\n\n    def schedule_ptr_first_refresh(self, pointer: DNSPointer) -> None:\n        refresh_time_millis = pointer.get_expiration_time(_EXPIRE_REFRESH_TIME_PERCENT)\n        expire_time_millis = pointer.get_expiration_time(100)\n        self._schedule_ptr_refresh(pointer, expire_time_millis, refresh_time_millis)\n\n    def schedule_rescue_query("
_NEWREC_OLD = "                        self._enqueue_callback(SERVICE_STATE_CHANGE_ADDED, type_, pointer.alias)\n                        self.query_scheduler.reschedule_ptr_first_refresh(pointer)"
_NEWREC_NEW = "                        self._enqueue_callback(SERVICE_STATE_CHANGE_ADDED, type_, pointer.alias)\n                        self.query_scheduler.schedule_ptr_first_refresh(pointer)"
V('c10-twin-first-refresh-helper-extracted', 'C10', 'C10.PAIR', BRF, _RS_OLD, _RS_NEW, expect='silent')
V('c10-new-record-pushed-without-map-lookup', 'C10', 'C10.PAIR', BRF, _RS_OLD, _RS_NEW, names=['schedule_ptr_first_refresh'], more=[(BRF, _NEWREC_OLD, _NEWREC_NEW)])
V('c15-new-record-pushed-without-map-lookup', 'C15', 'C15.CONTAINERS', BRF, _RS_OLD, _RS_NEW, names=['schedule_ptr_first_refresh'], more=[(BRF, _NEWREC_OLD, _NEWREC_NEW)])
_SORT_OLD = "    for question in sorted(\n        query_by_size,\n        key=query_by_size.get,  # type: ignore\n        reverse=True,\n    ):\n        max_compressed_size = query_by_size[question]\n"
_SORT_NEW = "    for max_compressed_size, question in sorted([(size, q) for q, size in query_by_size.items()], reverse=True):\n"
V('c10-questions-sorted-as-tuples', 'C10', 'C10.REARM', BRF, _SORT_OLD, _SORT_NEW, names=['TypeError'])
V('c15-questions-sorted-as-tuples', 'C15', 'C15.ESCAPE', BRF, _SORT_OLD, _SORT_NEW, names=['TypeError'])
V('c10-twin-questions-sorted-by-size-key', 'C10', 'C10.REARM', BRF, _SORT_OLD, "    for max_compressed_size, question in sorted([(size, q) for q, size in query_by_size.items()], key=lambda sq: sq[0], reverse=True):\n", expect='silent')
IPF = '_utils/ipaddress.py'
V('c15-scoped-address-parsed-unguarded', 'C15', 'C15.ESCAPE', IPF,
  '        return cached_ip_addresses_wrapper("".join((str(base_address), "%", str(scope))))',
  '        return ZeroconfIPv6Address("".join((str(base_address), "%", str(scope))))', names=['AddressValueError'])

# ---------------------------------------------------------------- round 10: question history keyed by a tuple
HISTF = '_history.py'
def _hist_variant(keyexpr: str) -> list:
    return [
        (HISTF, "        self._history[question] = (now, known_answers)", f"        self._history[{keyexpr}] = (now, known_answers)"),
        (HISTF, "        previous_question = self._history.get(question)", f"        previous_question = self._history.get({keyexpr})"),
    ]
_h_spelled = _hist_variant("(question.name, question.type, question.class_)")
_h_key = _hist_variant("(question.key, question.type, question.class_)")
V('c20-history-keyed-by-spelled-name', 'C20', 'C20.ONECOPY', HISTF, _h_spelled[0][1], _h_spelled[0][2], names=['question.name'], more=[_h_spelled[1]])
V('c20-twin-history-keyed-by-lowered-key', 'C20', 'C20.ONECOPY', HISTF, _h_key[0][1], _h_key[0][2], expect='silent', more=[_h_key[1]],
  )

# ---------------------------------------------------------------- round 10: TXT first occurrence by folded key; lookup omits question for stale records; QU predicate widened
V('c19-txt-first-occurrence-by-folded-key', 'C19', 'C19.TXT', INFOF,
  "            if key not in properties:\n                properties[key] = key_sep_value[2] or None",
  "            if key.lower() not in seen:\n                seen.add(key.lower())\n                properties[key] = key_sep_value[2] or None",
  names=['_unpack_text_into_properties'], more=[(INFOF, "        properties: Dict[bytes, Optional[bytes]] = {}\n        while index < end:", "        properties: Dict[bytes, Optional[bytes]] = {}\n        seen: Set[bytes] = set()\n        while index < end:")])
V('c18-question-omitted-for-stale-records', 'C18', 'C18.ASK', INFOF,
  "        if skip_if_known_answers and known_answers:\n            return",
  "        if skip_if_known_answers and cache.get_all_by_details(name, type_, class_):\n            return", names=['omit-if-known'])
V('c16-qu-predicate-counts-probes', 'C16', 'C16.GUARD', INCF,
  "        return self._has_qu_question\n", "        return self._has_qu_question or self._num_authorities > 0\n", names=['has_qu_question'])
V('c17-lookup-waits-for-start-in-its-loop', 'C17', 'C17.TIMERS', INFOF,
  "                if next_ <= now:\n", "                if next_ <= now:\n                    if not zc.started:\n                        await zc.async_wait_for_start()\n", names=['async_request'])
V('c18-address-eq-ignores-scope', 'C18', 'C18.MATCH', IPF,
  "class ZeroconfIPv6Address(IPv6Address):\n\n    __slots__ = (\"_str\", \"_is_link_local\", \"_is_unspecified\")\n",
  "class ZeroconfIPv6Address(IPv6Address):\n\n    __slots__ = (\"_str\", \"_is_link_local\", \"_is_unspecified\")\n\n    def __eq__(self, other: object) -> bool:\n        if type(other) is ZeroconfIPv6Address:\n            return self._ip == other._ip  # type: ignore[attr-defined]\n        return super().__eq__(other)\n\n    __hash__ = IPv6Address.__hash__\n", names=['ZeroconfIPv6Address'])
V('c11-flush-bit-on-unicast-responses', 'C11', 'C11.FORMAT', '_protocol/outgoing.py',
  "        if record.unique is True and self.multicast:", "        if record.unique is True and self.is_response():", names=['_write_record_class'])
V('c09-qu-probe-unanswered-when-recently-multicast', 'C09', 'C09.SHAPE', '_handlers/query_handler.py',
  "            if self._is_probe:\n                self._ucast.add(record)\n            if not self._has_mcast_within_one_quarter_ttl(record):\n                self._mcast_now.add(record)\n            elif not self._is_probe:\n                self._ucast.add(record)",
  "            if not self._has_mcast_within_one_quarter_ttl(record):\n                self._mcast_now.add(record)\n                if self._is_probe:\n                    self._ucast.add(record)\n            elif not self._is_probe:\n                self._ucast.add(record)", names=['probe=True'])

# ---------------------------------------------------------------- F25 / F26 undone
NAMEF = '_utils/name.py'
V('c19-surrogate-label-escapes-the-validator', 'C19', 'C19.TOTAL', NAMEF,
  "        try:\n            length = len(remaining[0].encode('utf-8'))\n        except UnicodeEncodeError:\n            # a lone surrogate: the label has no UTF-8 form at all\n            raise BadTypeInNameException(\"Not encodable as UTF-8: %r\" % remaining[0]) from None\n",
  "        length = len(remaining[0].encode('utf-8'))\n", names=['UnicodeEncodeError'])
V('c19-twin-surrogate-label-length-by-surrogatepass', 'C19', 'C19.TOTAL', NAMEF,
  "        try:\n            length = len(remaining[0].encode('utf-8'))\n        except UnicodeEncodeError:\n            # a lone surrogate: the label has no UTF-8 form at all\n            raise BadTypeInNameException(\"Not encodable as UTF-8: %r\" % remaining[0]) from None\n",
  "        length = len(remaining[0].encode('utf-8', 'surrogatepass'))\n        if any(0xD800 <= ord(ch) <= 0xDFFF for ch in remaining[0]):\n            raise BadTypeInNameException(\"Not encodable as UTF-8: %r\" % remaining[0])\n", expect='silent')
MQF = '_handlers/multicast_outgoing_queue.py'
V('c12-sent-answers-stay-in-the-other-queue', 'C12', 'C12.WIRING', MQF,
  "            for queue in (zc.out_queue, zc.out_delay_queue):\n                if queue is not self:\n                    queue._remove_answers_from_queue(answers)\n", "", names=['other queues'])
V('c12-twin-both-queues-purged-by-name', 'C12', 'C12.WIRING', MQF,
  "            self._remove_answers_from_queue(answers)\n            for queue in (zc.out_queue, zc.out_delay_queue):\n                if queue is not self:\n                    queue._remove_answers_from_queue(answers)\n",
  "            zc.out_queue._remove_answers_from_queue(answers)\n            zc.out_delay_queue._remove_answers_from_queue(answers)\n", expect='silent')

# ---------------------------------------------------------------- from the mutation sweep (10.8): one respelled node each, in places the seeded rounds had not reached
V('c18-new-address-not-stored', 'C18', 'C18.MATCH', '_services/info.py',
  '                if ip_addr not in ipv4_addresses:\n                    ipv4_addresses.insert(0, ip_addr)\n',
  '                if ip_addr not in ipv4_addresses:\n                    pass\n', names=['_process_record_threadsafe'])
V('c18-address-family-test-inverted', 'C18', 'C18.MATCH', '_services/info.py',
  '            if ip_addr.version == 4:\n',
  '            if (ip_addr.version != 4):\n', names=['_process_record_threadsafe'])
V('c03-address-owner-is-the-instance', 'C03', 'C03.TTLCLASS', '_services/info.py',
  '        name = self.server or self._name\n',
  '        name = (self._name)\n', names=['_dns_addresses'])
V('c03-address-type-by-family-inverted', 'C03', 'C03.TTLCLASS', '_services/info.py',
  '                _TYPE_AAAA if ip_addr.version == 6 else _TYPE_A,\n',
  '                _TYPE_AAAA if (ip_addr.version != 6) else _TYPE_A,\n', names=['_dns_addresses'])
V('c03-present-type-not-struck-off', 'C03', 'C03.ADDRNSEC', '_services/info.py',
  '            missing_types.discard(dns_address.type)\n',
  '            pass\n', names=['_get_address_and_nsec_records'])
V('c08-nsec-left-out-of-the-host-set', 'C08', 'C08.GOODBYE', '_services/info.py',
  '            records.add(self._dns_nsec(list(missing_types), override_ttl))\n',
  '            pass\n', names=['_get_address_and_nsec_records'])
V('c13-lookup-question-without-qu-bit', 'C13', 'C13.HISTORY', '_services/info.py',
  '            question.unicast = True\n',
  '            pass\n', names=['_add_question_with_known_answers'])
V('c13-lookup-known-answers-not-listed', 'C13', 'C13.HISTORY', '_services/info.py',
  '            out.add_answer_at_time(answer, now)\n',
  '            pass\n', names=['_add_question_with_known_answers'])
V('c18-cached-srv-not-processed', 'C18', 'C18.BOUND', '_services/info.py',
  '            self._process_record_threadsafe(zc, cached_srv_record, now)\n',
  '            pass\n', names=['_load_from_cache'])
V('c09-rename-keeps-the-old-key', 'C09', 'C09.ORDER', '_services/info.py',
  '            self._get_address_and_nsec_records_cache = None\n        self._name = name\n        self.key = name.lower()\n',
  '            self._get_address_and_nsec_records_cache = None\n        self._name = name\n        pass\n', names=['name'])
V('c09-rename-moves-only-unset-host', 'C09', 'C09.ORDER', '_services/info.py',
  '        if self.server_key is not None and self.server_key == self.key:\n',
  '        if (self.server_key is None) and self.server_key == self.key:\n', names=['name'])
V('c13-delay-lowered-after-qm-round', 'C13', 'C13.CONST', '_services/info.py',
  '                    if this_question_type is QM_QUESTION and delay < _DUPLICATE_QUESTION_INTERVAL:\n',
  '                    if (this_question_type is QM_QUESTION):\n', names=['async_request'])
V('c13-question-not-put-into-existing-bucket', 'C13', 'C13.KNOWN', '_services/browser.py',
  '                query_bucket.add(max_compressed_size, question, answers)\n',
  '                pass\n', names=['_group_ptr_queries_with_known_answers'])
V('c13-bucket-without-the-question', 'C13', 'C13.KNOWN', '_services/browser.py',
  '        self.out.add_question(question)\n',
  '        pass\n', names=['add'])
V('c13-browser-question-without-qu-bit', 'C13', 'C13.QUFIRST', '_services/browser.py',
  '        question.unicast = qu_question\n',
  '        pass\n', names=['generate_service_query'])
V('c10-closed-gate-falls-through', 'C10', 'C10.REARM', '_services/browser.py',
  '    def _process_startup_queries(self) -> None:\n        if TYPE_CHECKING:\n            assert self._loop is not None\n        # This is a safety to ensure we stop sending queries if Zeroconf instance\n        # is stopped without the browser being cancelled\n        if self._zc.done:\n            return\n',
  '    def _process_startup_queries(self) -> None:\n        if TYPE_CHECKING:\n            assert self._loop is not None\n        # This is a safety to ensure we stop sending queries if Zeroconf instance\n        # is stopped without the browser being cancelled\n        if self._zc.done:\n            pass\n', names=['_process_startup_queries'])
V('c10-generated-queries-not-sent', 'C10', 'C10.REARM', '_services/browser.py',
  '                self._zc.async_send(out, self._addr, self._port)\n',
  '                pass\n', names=['async_send_ready_queries'])
V('c10-superseded-entry-not-flagged', 'C10', 'C10.PAIR', '_services/browser.py',
  '            current.cancelled = True\n',
  '            current.cancelled = False\n', names=['reschedule_ptr_first_refresh'])
V('c10-cancel-flags-nothing', 'C10', 'C10.PAIR', '_services/browser.py',
  '        if scheduled:\n',
  '        if (not scheduled):\n', names=['cancel_ptr_refresh'])
V('c01-zero-label-does-not-end-name', 'C01', 'C01.PRIMS', '_protocol/incoming.py',
  '                return off + DNS_COMPRESSION_HEADER_LEN\n',
  '                pass\n', names=['_decode_labels_at_offset'])
V('c01-label-slice-backwards', 'C01', 'C01.PRIMS', '_protocol/incoming.py',
  "                labels.append(self.data[label_idx : label_idx + length].decode('utf-8', 'replace'))\n",
  "                labels.append(self.data[label_idx : (label_idx - length)].decode('utf-8', 'replace'))\n", names=['_decode_labels_at_offset'])
V('c02-pointer-labels-not-appended', 'C02', 'C02.FAITHFUL', '_protocol/incoming.py',
  '            labels.extend(linked_labels)\n',
  '            pass\n', names=['_decode_labels_at_offset'])
V('c01-label-walk-falls-off-the-end', 'C01', 'C01.PRIMS', '_protocol/incoming.py',
  '        raise IncomingDecodeError(f"Corrupt packet received while decoding name from {self.source}")\n',
  '        pass\n', names=['_decode_labels_at_offset'])
V('c18-api-returns-description-on-failure', 'C18', 'C18.BOUND', '_core.py',
  '        if await info.async_request(self, timeout, question_type):\n',
  '        if (not await info.async_request(self, timeout, question_type)):\n', names=['async_get_service_info'])
V('c08-blocking-unregister-all-does-nothing', 'C08', 'C08.COMPLETE', '_core.py',
  '        run_coro_with_timeout(\n            self.async_unregister_all_services(), self.loop, _UNREGISTER_TIME * _REGISTER_BROADCASTS\n        )\n',
  '        pass\n', names=['unregister_all_services'])
V('c03-update-skips-the-registry', 'C03', 'C03.INDEX', '_core.py',
  '        self.registry.async_update(info)\n',
  '        pass\n', names=['async_update_service'])
V('c03-answers-not-written', 'C03', 'C03.ADDL', '_handlers/answers.py',
  '        out.add_answer_at_time(answer, 0)\n',
  '        pass\n', names=['_add_answers_additionals'])
V('c12-flush-rearmed-behind-the-loop-clock', 'C12', 'C12.WIRING', '_handlers/multicast_outgoing_queue.py',
  '            loop.call_at(loop.time() + millis_to_seconds(self.queue[0].send_after - now), self.async_ready)\n',
  '            loop.call_at((loop.time() - millis_to_seconds(self.queue[0].send_after - now)), self.async_ready)\n', names=['async_ready'])
V('c12-last-second-test-without-entry', 'C12', 'C12.WINDOW', '_handlers/query_handler.py',
  '        return bool(maybe_entry is not None and self._now - maybe_entry.created < _ONE_SECOND)\n',
  '        return bool((maybe_entry is None) and self._now - maybe_entry.created < _ONE_SECOND)\n', names=['_has_mcast_record_in_last_second'])
V('c11-quarter-ttl-test-without-entry', 'C11', 'C11.FORMAT', '_handlers/query_handler.py',
  '        return bool(maybe_entry is not None and maybe_entry.is_recent(self._now))\n',
  '        return bool((maybe_entry is None) and maybe_entry.is_recent(self._now))\n', names=['_has_mcast_within_one_quarter_ttl'])
V('c01-nsec-window-31-bytes', 'C01', 'C01.NSECBITS', '_dns.py',
  "        bitmap = bytearray(b'\\0' * 32)\n",
  "        bitmap = bytearray(b'\\0' * 31)\n", names=['write'])
V('c01-nsec-bitmap-length-off', 'C01', 'C01.NSECBITS', '_dns.py',
  '            total_octets = byte + 1\n',
  '            total_octets = (byte - 1)\n', names=['write'])
V('c03-unlisted-record-suppressed', 'C03', 'C03.SUPPRESS', '_dns.py',
  '        if other is None:\n',
  '        if (other is not None):\n', names=['suppresses'])
V('c13-unicast-setter-stores-nothing', 'C13', 'C13.QUFIRST', '_dns.py',
  '        self.unique = value\n',
  '        pass\n', names=['unicast'])
V('c18-wait-helper-returns-at-once', 'C18', 'C18.BOUND', '_utils/asyncio.py',
  '        await future\n',
  '        pass\n', names=['wait_for_future_set_or_timeout'])
V('c08-async-unregister-all-wrapper-empty', 'C08', 'C08.COMPLETE', 'asyncio.py',
  '        await self.zeroconf.async_unregister_all_services()\n',
  '        pass\n', names=['async_unregister_all_services'])
V('c17-async-browser-cancel-empty', 'C17', 'C17.LISTENER', 'asyncio.py',
  '        self._async_cancel()\n',
  '        pass\n', names=['async_cancel'])
V('c17-removed-listener-not-forgotten', 'C17', 'C17.LISTENER', 'asyncio.py',
  '            del self.async_browsers[listener]\n',
  '            pass\n', names=['async_remove_service_listener'])
V('c01-write-short-appends-nothing', 'C01', 'C01.PRIMS', '_protocol/outgoing.py',
  '        self.data.append(self._get_short(value))\n',
  '        pass\n', names=['write_short'])
V('c01-question-not-appended', 'C01', 'C01.PRIMS', '_protocol/outgoing.py',
  '        self.questions.append(record)\n',
  '        pass\n', names=['add_question'])
V('c06-refresh-never-shortens', 'C06', 'C06.FLOORFLUSH', DNS,
  "        self.set_created_ttl(other.created, other.ttl)",
  "        if other.get_expiration_time(100) >= self.get_expiration_time(100):\n            self.set_created_ttl(other.created, other.ttl)", names=['reset_ttl'])
V('c12-immediate-answer-leaves-parked-copy', 'C12', 'C12.WIRING', '_handlers/query_handler.py',
  "            self.out_queue._remove_answers_from_queue(question_answers.mcast_now)\n            self.out_delay_queue._remove_answers_from_queue(question_answers.mcast_now)\n", "", names=['handle_assembled_query'])
V('c12-immediate-answer-purges-one-queue-only', 'C12', 'C12.WIRING', '_handlers/query_handler.py',
  "            self.out_delay_queue._remove_answers_from_queue(question_answers.mcast_now)\n", "", names=['handle_assembled_query'])

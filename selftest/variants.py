"""Catalogue of breaking variants (must fire) and behaviour-preserving twins
(must stay silent).  One entry = one scratch-copy edit."""
from typing import Any, Dict, List

VARIANTS: List[Dict[str, Any]] = []


def V(id: str, prop: str, rule: str, file: str, old: str, new: str, expect: str = 'fire', names: Any = (), more: Any = ()) -> None:
    edits = [('src/zeroconf/' + file, old, new)] + [('src/zeroconf/' + f, o, n) for f, o, n in more]
    VARIANTS.append({'id': id, 'property': prop, 'rule': rule, 'edits': edits, 'expect': expect, 'names': list(names)})


DNS = '_dns.py'
# ---------------------------------------------------------------- C20
V('c20-eq-ttl', 'C20', 'C20.CONGRUENCE', DNS,
  "return self.text == other.text and self._dns_entry_matches(other)",
  "return self.text == other.text and self.ttl == other.ttl and self._dns_entry_matches(other)", names=['DNSText'])
V('c20-hash-alias-raw', 'C20', 'C20.CONGRUENCE', DNS,
  "self._hash = hash((self.key, type_, self.class_, self.alias_key))",
  "self._hash = hash((self.key, type_, self.class_, self.alias))", names=['DNSPointer'])
V('c20-hash-drop-scope', 'C20', 'C20.CONGRUENCE', DNS,
  "self._hash = hash((self.key, type_, self.class_, address, scope_id))",
  "self._hash = hash((self.key, type_, self.class_, address))", names=['DNSAddress'])
V('c20-setter-alias-key', 'C20', 'C20.CONGRUENCE', DNS,
  "    def __repr__(self) -> str:\n        \"\"\"String representation\"\"\"\n        return self.to_string(self.alias)",
  "    def rename(self, alias: str) -> None:\n        self.alias = alias\n        self.alias_key = alias.lower()\n\n    def __repr__(self) -> str:\n        \"\"\"String representation\"\"\"\n        return self.to_string(self.alias)", names=['alias_key'])
V('c20-isinstance-base', 'C20', 'C20.CONGRUENCE', DNS,
  "return isinstance(other, DNSText) and self._eq(other)", "return isinstance(other, DNSRecord) and self._eq(other)", names=['DNSText'])
V('c20-hash-raw-class', 'C20', 'C20.CONGRUENCE', DNS,
  "self._hash = hash((self.key, type_, self.class_, text))", "self._hash = hash((self.key, type_, class_, text))", names=['DNSText'])
V('c20-srv-server-raw-eq', 'C20', 'C20.CONGRUENCE', DNS,
  "and self.server_key == other.server_key", "and self.server == other.server", names=['DNSService'])
V('c20-mask-dropped', 'C20', 'C20.CONGRUENCE', DNS,
  "self.class_ = class_ & _CLASS_MASK", "self.class_ = class_", names=['_set_class'])
V('c20-key-not-lowered', 'C20', 'C20.CONGRUENCE', DNS,
  "self.key = name.lower()", "self.key = name", names=['key'])
V('c20-question-hash-name', 'C20', 'C20.CONGRUENCE', DNS,
  "self._hash = hash((self.key, type_, self.class_))", "self._hash = hash((self.name, type_, self.class_))", names=['DNSQuestion'])
# twins
V('c20-twin-reorder-eq', 'C20', 'C20.CONGRUENCE', DNS,
  "return self.text == other.text and self._dns_entry_matches(other)",
  "return self._dns_entry_matches(other) and other.text == self.text", expect='silent')
V('c20-twin-hash-selffield', 'C20', 'C20.CONGRUENCE', DNS,
  "self._hash = hash((self.key, type_, self.class_, text))", "self._hash = hash((self.key, self.type, self.class_, self.text))", expect='silent')
V('c20-twin-mask-literal', 'C20', 'C20.CONGRUENCE', DNS,
  "self.class_ = class_ & _CLASS_MASK", "self.class_ = 0x7FFF & class_", expect='silent')

CORE = '_core.py'
# ---------------------------------------------------------------- C17
V('c17-second-sendto', 'C17', 'C17.GATE', '_handlers/multicast_outgoing_queue.py',
  "            zc.async_send(construct_outgoing_multicast_answers(answers))",
  "            out = construct_outgoing_multicast_answers(answers)\n            for packet in out.packets():\n                for t in zc.engine.senders:\n                    t.transport.sendto(packet, ('224.0.0.251', 5353))",
  names=['async_ready'])
V('c17-gate-after-loop', 'C17', 'C17.GATE', CORE,
  "        if self.done:\n            return\n\n        # If no transport is specified, we send to all the ones",
  "        # If no transport is specified, we send to all the ones", names=['async_send_with_transport'])
V('c17-done-cleared-in-start', 'C17', 'C17.GATE', CORE,
  "        self.loop = get_running_loop()\n        if self.loop:",
  "        self.loop = get_running_loop()\n        self.done = False\n        if self.loop:", names=['Zeroconf.start'])
V('c17-close-skips-_close', 'C17', 'C17.GATE', CORE,
  "            else:\n                self.unregister_all_services()\n        self._close()\n        self.engine.close()",
  "            else:\n                self.unregister_all_services()\n                self._close()\n        self.engine.close()", names=['Zeroconf.close'])
V('c17-gate-before-goodbye', 'C17', 'C17.GOODBYE', CORE,
  "        assert self.loop is not None\n        if self.loop.is_running():\n            if self.loop == get_running_loop():",
  "        assert self.loop is not None\n        self._close()\n        if self.loop.is_running():\n            if self.loop == get_running_loop():", names=['Zeroconf.close'])
V('c17-async-close-order', 'C17', 'C17.GOODBYE', 'asyncio.py',
  "        await self.async_remove_all_service_listeners()\n        await self.async_unregister_all_services()\n        await self.zeroconf._async_close()  # pylint: disable=protected-access",
  "        await self.async_remove_all_service_listeners()\n        await self.zeroconf._async_close()  # pylint: disable=protected-access\n        await self.async_unregister_all_services()", names=['async_close'])
V('c17-cleanup-timer-not-cancelled', 'C17', 'C17.TIMERS', '_engine.py',
  "        assert self._cleanup_timer is not None\n        self._cleanup_timer.cancel()\n", "", names=['_async_cache_cleanup'])
V('c17-scheduler-gate-and-cancel-dropped', 'C17', 'C17.TIMERS', '_services/browser.py',
  "        if self._next_run is not None:\n            self._next_run.cancel()\n            self._next_run = None\n",
  "        self._next_run = None\n", names=['_next_run'])
V('c17-lookup-no-finally', 'C17', 'C17.LISTENER', '_services/info.py',
  "        finally:\n            zc.async_remove_listener(self)\n\n        return True",
  "        except asyncio.CancelledError:\n            raise\n        zc.async_remove_listener(self)\n        return True", names=['async_request'])
V('c17-cancel-keeps-listener', 'C17', 'C17.LISTENER', '_services/browser.py',
  "        self.query_scheduler.stop()\n        self.zc.async_remove_listener(self)\n",
  "        self.query_scheduler.stop()\n        if not self.zc.done:\n            self.zc.async_remove_listener(self)\n", names=['_async_cancel'])
V('c17-close-not-idempotent', 'C17', 'C17.GOODBYE', CORE,
  "        if self.done:\n            return\n        self.remove_all_service_listeners()",
  "        self.remove_all_service_listeners()", names=['_close'])
# twins
V('c17-twin-gate-nested', 'C17', 'C17.GATE', CORE,
  "        if self.done:\n            return\n\n        # If no transport is specified, we send to all the ones\n        # with the same address family\n        transports = [transport] if transport else self.engine.senders\n        log_debug = log.isEnabledFor(logging.DEBUG)\n",
  "        if self.done is True:\n            return None\n        transports = [transport] if transport else self.engine.senders\n        log_debug = log.isEnabledFor(logging.DEBUG)\n", expect='silent')
V('c17-twin-stop-reordered', 'C17', 'C17.LISTENER', '_services/browser.py',
  "        if self._next_run is not None:\n            self._next_run.cancel()\n            self._next_run = None\n        self._next_scheduled_for_alias.clear()\n        self._query_heap.clear()",
  "        self._query_heap.clear()\n        self._next_scheduled_for_alias.clear()\n        timer = self._next_run\n        if timer is not None:\n            self._next_run.cancel()\n            self._next_run = None", expect='silent')

"""Catalogue of breaking variants (must fire) and behaviour-preserving twins
(must stay silent).  One entry = one scratch-copy edit."""
from typing import Any, Dict, List

VARIANTS: List[Dict[str, Any]] = []


def V(id: str, prop: str, rule: str, file: str, old: str, new: str, expect: str = 'fire', names: Any = (), more: Any = ()) -> None:
    edits = [('src/zeroconf/' + file, old, new)] + [('src/zeroconf/' + f, o, n) for f, o, n in more]
    VARIANTS.append({'id': id, 'property': prop, 'rule': rule, 'edits': edits, 'expect': expect, 'names': list(names)})


DNS = '_dns.py'
# ---------------------------------------------------------------- C20
V('c20-eq-ttl', 'C20', 'C20.CONGRUENCE', DNS,
  "return self.text == other.text and self._dns_entry_matches(other)",
  "return self.text == other.text and self.ttl == other.ttl and self._dns_entry_matches(other)", names=['DNSText'])
V('c20-hash-alias-raw', 'C20', 'C20.CONGRUENCE', DNS,
  "self._hash = hash((self.key, type_, self.class_, self.alias_key))",
  "self._hash = hash((self.key, type_, self.class_, self.alias))", names=['DNSPointer'])
V('c20-hash-drop-scope', 'C20', 'C20.CONGRUENCE', DNS,
  "self._hash = hash((self.key, type_, self.class_, address, scope_id))",
  "self._hash = hash((self.key, type_, self.class_, address))", names=['DNSAddress'])
V('c20-setter-alias-key', 'C20', 'C20.CONGRUENCE', DNS,
  "    def __repr__(self) -> str:\n        \"\"\"String representation\"\"\"\n        return self.to_string(self.alias)",
  "    def rename(self, alias: str) -> None:\n        self.alias = alias\n        self.alias_key = alias.lower()\n\n    def __repr__(self) -> str:\n        \"\"\"String representation\"\"\"\n        return self.to_string(self.alias)", names=['alias_key'])
V('c20-isinstance-base', 'C20', 'C20.CONGRUENCE', DNS,
  "return isinstance(other, DNSText) and self._eq(other)", "return isinstance(other, DNSRecord) and self._eq(other)", names=['DNSText'])
V('c20-hash-raw-class', 'C20', 'C20.CONGRUENCE', DNS,
  "self._hash = hash((self.key, type_, self.class_, text))", "self._hash = hash((self.key, type_, class_, text))", names=['DNSText'])
V('c20-srv-server-raw-eq', 'C20', 'C20.CONGRUENCE', DNS,
  "and self.server_key == other.server_key", "and self.server == other.server", names=['DNSService'])
V('c20-mask-dropped', 'C20', 'C20.CONGRUENCE', DNS,
  "self.class_ = class_ & _CLASS_MASK", "self.class_ = class_", names=['_set_class'])
V('c20-key-not-lowered', 'C20', 'C20.CONGRUENCE', DNS,
  "self.key = name.lower()", "self.key = name", names=['key'])
V('c20-question-hash-name', 'C20', 'C20.CONGRUENCE', DNS,
  "self._hash = hash((self.key, type_, self.class_))", "self._hash = hash((self.name, type_, self.class_))", names=['DNSQuestion'])
# twins
V('c20-twin-reorder-eq', 'C20', 'C20.CONGRUENCE', DNS,
  "return self.text == other.text and self._dns_entry_matches(other)",
  "return self._dns_entry_matches(other) and other.text == self.text", expect='silent')
V('c20-twin-hash-selffield', 'C20', 'C20.CONGRUENCE', DNS,
  "self._hash = hash((self.key, type_, self.class_, text))", "self._hash = hash((self.key, self.type, self.class_, self.text))", expect='silent')
V('c20-twin-mask-literal', 'C20', 'C20.CONGRUENCE', DNS,
  "self.class_ = class_ & _CLASS_MASK", "self.class_ = 0x7FFF & class_", expect='silent')

"""Seeded changes x behaviour-preserving spellings: every kept seeded change is applied to a scratch copy, the scratch copy is
then re-emitted in each twin spelling (selftest/twins.py), and the check of the change's own property must still report a
violation.  A miss here means a rule recognises the break only under the spelling the change happened to use.

Not a registered command (about 10 minutes); run after rule changes:  /venv/bin/python selftest/cross.py [Cxx] [kind,kind]"""
from __future__ import annotations

import concurrent.futures
import json
import os
import shutil
import subprocess
import sys
import tempfile

HERE = os.path.dirname(os.path.abspath(__file__))
VERIF = os.path.dirname(HERE)
sys.path.insert(0, HERE)
sys.path.insert(0, VERIF)
import twins  # noqa: E402

KINDS = ['rename', 'flip', 'swap', 'rettmp', 'ifexp', 'aug', 'log', 'reorder', 'condtmp', 'demorgan', 'nest', 'elsejump', 'tuple']


def one(job):
    name, prop, patch, kind = job
    base = os.environ.get('TMPDIR') or '/var/tmp'
    d = tempfile.mkdtemp(prefix='verif-cross-', dir=base)
    d2 = tempfile.mkdtemp(prefix='verif-cross-', dir=base)
    try:
        shutil.copytree('/repo/src/zeroconf', os.path.join(d, 'src', 'zeroconf'), ignore=shutil.ignore_patterns('__pycache__', '*.pyc', '*.so'))
        q = subprocess.run(['git', 'apply', '--whitespace=nowarn', patch], cwd=d, capture_output=True, text=True)
        if q.returncode:
            return name, kind, 'skip', ''
        try:
            twins.make_twin(d, d2, kind == 'rename', '' if kind == 'rename' else kind)
        except SyntaxError as e:
            return name, kind, 'twin-failed', str(e)
        env = dict(os.environ, VERIF_EVIDENCE_DIR=os.path.join(d2, 'evidence'))
        p = subprocess.run([os.path.join(VERIF, 'check'), prop, '--repo', d2], capture_output=True, text=True, env=env, cwd=VERIF)
        out = p.stdout + p.stderr
        if p.returncode == 1 and 'VIOLATION property=' + prop in out:
            return name, kind, 'caught', ''
        tail = [l for l in out.splitlines() if l.startswith(('ANALYSIS-ERROR', 'VIOLATION')) or l.lstrip().startswith('[C')]
        return name, kind, f'MISSED (exit {p.returncode})', ' | '.join(tail)[:400]
    finally:
        shutil.rmtree(d, ignore_errors=True)
        shutil.rmtree(d2, ignore_errors=True)


def main() -> int:
    want_prop = sys.argv[1] if len(sys.argv) > 1 and sys.argv[1] != 'all' else ''
    kinds = sys.argv[2].split(',') if len(sys.argv) > 2 else KINDS
    jobs = []
    root = os.path.join(VERIF, 'seeded')
    for name in sorted(os.listdir(root)):
        mf = os.path.join(root, name, 'meta.json')
        if not os.path.exists(mf):
            continue
        meta = json.load(open(mf))
        if not meta.get('kept') or (want_prop and meta['property'] != want_prop):
            continue
        for k in kinds:
            jobs.append((name, meta['property'], os.path.join(root, name, 'patch.diff'), k))
    bad = 0
    with concurrent.futures.ThreadPoolExecutor(max_workers=int(os.environ.get('VERIF_JOBS', '14'))) as ex:
        for name, kind, status, detail in ex.map(one, jobs):
            if status != 'caught' and status != 'skip':
                bad += 1
                print(f'{name} x {kind}: {status} {detail}', flush=True)
    print(f'{len(jobs) - bad}/{len(jobs)} (seeded change, spelling) pairs caught')
    return 1 if bad else 0


if __name__ == '__main__':
    sys.exit(main())

"""Pre-existing defect 1 (property C12, clean tree): a reply that is multicast AT ONCE does not take the
same record out of the aggregation queue, so the record is multicast twice within a second -- also
with respect to a query that arrived after the first of the two transmissions.

Clause violated: "Probe replies excepted, a record the host saw multicast less than one second before
the query arrived is not multicast again until at least one second after that sighting".

Failing schedule (one service `inst._prea._tcp.local.` on `hosta.local.` 10.0.1.2; the host sees its
own multicasts because of multicast loopback, emulated here by feeding every sent packet back into
datagram_received):
    t=0   source .50: query with two questions  A? hosta.local. + PTR? _prea._tcp.local.   (QM)
          -> two questions, so the A record is put in the aggregation queue (due at t=20..120, or 500)
    t=20  source .51: query with the single question  A? hosta.local.
          -> answered at once: the A record is multicast at t=20 and seen (cached, created=20)
    t=40  source .52: the two-question query again
          -> the A record was seen 20 ms before this query arrived, it is rightly put in the
             one-second-protection queue (not before t=1020) ...
    ... but the copy queued at t=0 is still in the ordinary queue and is multicast as an ANSWER at
    t=20+jitter..500, i.e. well under one second after the sighting at t=20.
Observed: the A record is multicast as an answer at t=20 and again before t=1020.  Required: not
again before t=1020.

Small safe fix: in QueryHandler.handle_assembled_query, after sending `mcast_now`, remove those records
from both outgoing queues exactly as MulticastOutgoingQueue.async_ready does for what it sends
("what is multicast now answers every query that is still waiting for it"); additionals keep
travelling with the remaining answers.  Not changed here.
"""
import asyncio
import heapq
import itertools
import random
import socket
import sys
from unittest.mock import patch

from zeroconf import DNSAddress, DNSOutgoing, DNSQuestion, ServiceInfo, const
from zeroconf.asyncio import AsyncZeroconf

T0 = 1_000_000.0
EPS = 1e-3


class _Handle:
    def __init__(self, when_ms, callback, args):
        self.when_ms, self.callback, self.args, self._cancelled = when_ms, callback, args, False

    def cancel(self):
        self._cancelled = True

    def cancelled(self):
        return self._cancelled


class VirtualLoop:
    def __init__(self):
        self.now_ms = T0
        self._heap = []
        self._seq = itertools.count()

    def millis(self):
        return self.now_ms

    def time(self):
        return self.now_ms / 1000.0

    def call_at(self, when, callback, *args):
        handle = _Handle(round(when * 1000.0, 6), callback, args)
        heapq.heappush(self._heap, (handle.when_ms, next(self._seq), handle))
        return handle

    def call_soon(self, callback, *args):
        return self.call_at(self.time(), callback, *args)

    def advance_to(self, t_ms):
        while self._heap and self._heap[0][0] <= t_ms + 1e-9:
            when_ms, _, handle = heapq.heappop(self._heap)
            if handle.cancelled():
                continue
            self.now_ms = max(self.now_ms, when_ms)
            handle.callback(*handle.args)
        self.now_ms = max(self.now_ms, t_ms)


def query(questions):
    out = DNSOutgoing(const._FLAGS_QR_QUERY, multicast=True)
    for name, type_ in questions:
        out.add_question(DNSQuestion(name, type_, const._CLASS_IN))
    return out.packets()[0]


async def run(seed):
    random.seed(seed)
    type_ = "_prea._tcp.local."
    info = ServiceInfo(
        type_, f"inst.{type_}", 80, 0, 0, {'path': '/'}, "hosta.local.", addresses=[socket.inet_aton("10.0.1.2")]
    )
    aiozc = AsyncZeroconf(interfaces=['127.0.0.1'])
    zc = aiozc.zeroconf
    await zc.async_wait_for_start()
    zc.registry.async_add(info)
    protocol = zc.engine.protocols[0]
    real_loop = zc.loop
    vloop = VirtualLoop()
    sends = []

    def record_send(out, addr=None, port=const._MDNS_PORT, v6_flow_scope=(), transport=None):
        assert addr is None
        sends.append((vloop.millis(), [record for record, _ in out.answers]))
        for packet in out.packets():  # multicast loopback: the host hears itself
            vloop.call_soon(protocol.datagram_received, packet, ('127.0.0.1', const._MDNS_PORT))

    two_questions = query([("hosta.local.", const._TYPE_A), (type_, const._TYPE_PTR)])
    one_question = query([("hosta.local.", const._TYPE_A)])
    zc.loop = vloop
    try:
        with patch("zeroconf._listener.current_time_millis", vloop.millis), patch(
            "zeroconf._handlers.multicast_outgoing_queue.current_time_millis", vloop.millis
        ), patch.object(zc, "async_send", record_send):
            vloop.advance_to(T0 + 0)
            protocol.datagram_received(two_questions, ('192.168.1.50', const._MDNS_PORT))
            vloop.advance_to(T0 + 20)
            protocol.datagram_received(one_question, ('192.168.1.51', const._MDNS_PORT))
            vloop.advance_to(T0 + 40)
            protocol.datagram_received(two_questions, ('192.168.1.52', const._MDNS_PORT))
            vloop.advance_to(T0 + 5000)
    finally:
        zc.loop = real_loop
    zc.registry.async_remove(info)
    await aiozc.async_close()
    a_record = DNSAddress(
        "hosta.local.", const._TYPE_A, const._CLASS_IN | const._CLASS_UNIQUE, 120, socket.inet_aton("10.0.1.2")
    )
    return [t - T0 for t, answers in sends if a_record in answers]


async def main():
    bad = 0
    for seed in range(8):
        times = await run(seed)
        print(f"seed={seed}: A record of hosta.local. multicast as an answer at t={[round(t) for t in times]} ms")
        assert times and abs(times[0] - 20) < EPS, "the single-question A query must be answered at once"
        # strictly by the clause: transmissions after the query of t=40 arrived, that are less than
        # one second after the latest sighting preceding that query
        seen = max(t for t in times if t < 40)
        again = [t for t in times if 40 <= t < seen + 1000 - EPS]
        if again:
            bad += 1
    print(
        "required: the record was seen at t=20 (or a little later), less than 1 s before the query of t=40 "
        "arrived, so it is not multicast again before t=1020"
    )
    if bad:
        print(f"DEFECT: in {bad} of 8 jitter draws the record went out again less than 1 s after it was seen")
        return 1
    print("not reproduced")
    return 0


if __name__ == "__main__":
    sys.exit(asyncio.run(main()))

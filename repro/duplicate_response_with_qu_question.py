"""Pre-existing defect 1 for property C16 (back-to-back duplicate datagrams change nothing).

Clause violated: "the same listener and browser callbacks fire"; the sole exception of the statement is for a
*query* that contains a QU question.

Failing input: a *response* datagram whose question section echoes a question with the QU (top) class bit set.
RFC 6762 section 6.7 makes a responder repeat the question in a reply to a querier on an ephemeral port; a responder
that copies the question verbatim keeps the bit when the querier had set it, which is what a Zeroconf(unicast=True)
instance does in the first (QU) query of a browser.  (This library itself clears the bit when it writes such a
reply, other stacks need not.)  AsyncListener's duplicate guard asks last_message.has_qu_question() without looking
at the QR bit, so such a response is exempt from the guard and its back-to-back duplicate is handed to the
RecordManager a second time: every RecordUpdateListener gets a second async_update_records(...) (now with
old != None) and a second async_update_records_complete() that the un-duplicated history never produces.
ServiceBrowser add/remove callbacks and the datagrams sent stay the same, because the second pass is a refresh.

Small safe fix: exempt only queries, i.e. add `self.last_message.is_query()` to the QU exemption in
AsyncListener._process_datagram_at_time (`... and not (last_message.is_query() and last_message.has_qu_question())`);
responses never need to be processed twice.
"""
import asyncio
import random
import selectors
import socket
import sys
import types
from collections import Counter

import zeroconf._core as zc_core
import zeroconf._utils.time as zc_time
from zeroconf import DNSOutgoing, DNSQuestion, RecordUpdateListener, ServiceInfo, ServiceStateChange, const
from zeroconf._listener import AsyncListener
from zeroconf._protocol.incoming import DNSIncoming
from zeroconf._transport import _WrappedTransport
from zeroconf.asyncio import AsyncServiceBrowser, AsyncZeroconf

TYPE = "_c16demo._tcp.local."
OUR_NAME = f"Ours.{TYPE}"
REMOTE_NAME = f"Remote.{TYPE}"


# --------------------------------------------------------------------------
# virtual clock: the selector never blocks, it advances the clock instead
# --------------------------------------------------------------------------
class Clock:
    def __init__(self) -> None:
        self.now = 1000.0  # seconds


class VirtualSelector(selectors.DefaultSelector):
    def __init__(self, clock: Clock) -> None:
        super().__init__()
        self._clock = clock

    def select(self, timeout=None):
        events = super().select(0)
        if not events and timeout:
            self._clock.now += timeout
        return events


def new_virtual_loop(clock: Clock) -> asyncio.AbstractEventLoop:
    loop = asyncio.SelectorEventLoop(VirtualSelector(clock))
    loop.time = lambda: clock.now  # type: ignore[method-assign]
    return loop


# --------------------------------------------------------------------------
# fake network: transports that record what is sent
# --------------------------------------------------------------------------
class RecordingTransport:
    def __init__(self, label, clock, trace):
        self.label = label
        self.clock = clock
        self.trace = trace

    def sendto(self, data, addr=None):
        self.trace.append((round((self.clock.now - 1000.0) * 1000, 3), self.label, addr, bytes(data)))

    def close(self):
        pass

    def get_extra_info(self, name, default=None):
        return default


def describe(data: bytes) -> str:
    msg = DNSIncoming(data)
    kind = "query" if msg.is_query() else "response"
    parts = [repr(q) for q in msg.questions] + [
        f"{r.get_type(r.type)}:{r.name}:ttl={r.ttl}" for r in msg.answers()
    ]
    return f"{kind} id={msg.id} " + ", ".join(parts)


# --------------------------------------------------------------------------
# the traffic history (built once, the same bytes for every run)
# --------------------------------------------------------------------------
def build_history():
    remote = ServiceInfo(
        TYPE, REMOTE_NAME, 8080, 0, 0, {"k": "v"}, "remote-host.local.", addresses=[socket.inet_aton("192.168.1.20")]
    )

    def response(*records):
        out = DNSOutgoing(const._FLAGS_QR_RESPONSE | const._FLAGS_AA)
        for record in records:
            out.add_answer_at_time(record, 0)
        (packet,) = out.packets()
        return packet

    def query(name, type_, unicast=False, flags=const._FLAGS_QR_QUERY, known=()):
        out = DNSOutgoing(flags)
        question = DNSQuestion(name, type_, const._CLASS_IN)
        question.unicast = unicast
        out.add_question(question)
        for record in known:
            out.add_answer_at_time(record, 0)
        (packet,) = out.packets()
        return packet

    announce = response(
        remote.dns_pointer(), remote.dns_service(), remote.dns_text(), *remote.dns_addresses()
    )
    goodbye = response(remote.dns_pointer(override_ttl=0))

    v4_responder = ("192.168.1.20", 5353)

    # reply of a foreign responder to a QU question: question echoed verbatim, QU bit kept
    # (multicast=True only makes the encoder write the top class bit)
    reply = DNSOutgoing(const._FLAGS_QR_RESPONSE | const._FLAGS_AA, multicast=True)
    question = DNSQuestion(TYPE, const._TYPE_PTR, const._CLASS_IN)
    question.unicast = True
    reply.add_question(question)
    for record in (remote.dns_pointer(), remote.dns_service(), remote.dns_text(), *remote.dns_addresses()):
        reply.add_answer_at_time(record, 0)
    (reply_packet,) = reply.packets()
    parsed = DNSIncoming(reply_packet)
    assert parsed.is_response() and parsed.has_qu_question()

    # (time in ms after start, socket, datagram, source address as asyncio reports it)
    return [
        (100, "v4", reply_packet, v4_responder),  # new records, in a reply that echoes the QU question
        (2000, "v4", goodbye, v4_responder),  # goodbye (no question section)
    ]


# --------------------------------------------------------------------------
# one replay
# --------------------------------------------------------------------------
def replay(history, duplicate: bool, seed: int):
    clock = Clock()
    trace = []
    callbacks = []

    async def main():
        aiozc = AsyncZeroconf(interfaces=["127.0.0.1"])
        zc = aiozc.zeroconf
        await zc.async_wait_for_start()

        transports = {
            "v4": _WrappedTransport(RecordingTransport("v4", clock, trace), False, None, 11, ("0.0.0.0", 5353)),
            "v6": _WrappedTransport(RecordingTransport("v6", clock, trace), True, None, 12, ("::", 5353, 0, 0)),
        }
        zc.engine.senders = list(transports.values())
        listeners = {}
        for label, transport in transports.items():
            listener = AsyncListener(zc)  # one protocol per socket, as the engine does
            listener.transport = transport
            listener.sock_description = label
            listeners[label] = listener

        ours = ServiceInfo(
            TYPE, OUR_NAME, 80, 0, 0, {"path": "/"}, "our-host.local.", addresses=[socket.inet_aton("192.168.1.10")]
        )
        await aiozc.async_register_service(ours)

        def on_change(zeroconf, service_type, name, state_change: ServiceStateChange):
            callbacks.append((round((clock.now - 1000.0) * 1000, 3), state_change.name, name))

        browser = AsyncServiceBrowser(zc, [TYPE], handlers=[on_change])

        class Recorder(RecordUpdateListener):
            def async_update_records(self, zc_, now, records):
                at = round((clock.now - 1000.0) * 1000, 3)
                callbacks.append((at, "async_update_records",
                                  tuple((r.new.get_type(r.new.type), r.new.name, r.old is not None) for r in records)))

            def async_update_records_complete(self):
                callbacks.append((round((clock.now - 1000.0) * 1000, 3), "async_update_records_complete", ()))

        zc.async_add_listener(Recorder(), None)

        start = clock.now
        for at_ms, label, data, addrs in history:
            await asyncio.sleep(max(0.0, start + at_ms / 1000.0 - clock.now))
            listeners[label].datagram_received(data, addrs)
            if duplicate:
                # link-layer duplicate: same bytes, same source, same socket, at once
                listeners[label].datagram_received(data, addrs)
        await asyncio.sleep(3.0)
        # the record manager keeps its listeners in a set, so the order in which the browser and the
        # recorder are called is not defined: compare the log of each observer on its own
        browser_states = {state.name for state in ServiceStateChange}
        sent = list(trace)
        called = [c for c in callbacks if c[1] in browser_states] + [c for c in callbacks if c[1] not in browser_states]
        await browser.async_cancel()
        await aiozc.async_close()
        return sent, called

    random.seed(seed)
    loop = new_virtual_loop(clock)
    saved_time = zc_time.time
    saved_create_sockets = zc_core.create_sockets
    zc_time.time = types.SimpleNamespace(monotonic=lambda: clock.now)  # current_time_millis follows the clock
    zc_core.create_sockets = lambda *args, **kwargs: (None, [])  # hermetic: no real sockets
    try:
        asyncio.set_event_loop(loop)
        return loop.run_until_complete(main())
    finally:
        zc_time.time = saved_time
        zc_core.create_sockets = saved_create_sockets
        asyncio.set_event_loop(None)
        loop.close()


def show(title, sent, called):
    print(f"  {title}:")
    for at, label, addr, data in sent:
        print(f"    sent   t={at:9.3f}ms via {label} to {addr}: {describe(data)}")
    for at, state, name in called:
        print(f"    called t={at:9.3f}ms {state} {name}")


def main() -> int:
    history = build_history()
    failures = 0
    for seed in (1,):
        ref_sent, ref_called = replay(history, duplicate=False, seed=seed)
        again_sent, again_called = replay(history, duplicate=False, seed=seed)
        assert (ref_sent, ref_called) == (again_sent, again_called), "harness is not deterministic"
        dup_sent, dup_called = replay(history, duplicate=True, seed=seed)
        assert ref_called, "history did not exercise the instance"
        if (ref_sent, ref_called) == (dup_sent, dup_called):
            print(f"seed {seed}: duplicated run identical to reference run "
                  f"({len(ref_sent)} datagrams sent, {len(ref_called)} browser callbacks)")
            continue
        failures += 1
        print(f"seed {seed}: PROPERTY VIOLATED -- duplicating every datagram changed the observable behaviour")
        ref_count, dup_count = Counter(ref_sent), Counter(dup_sent)
        for (at, label, addr, data), n in sorted((dup_count - ref_count).items()):
            print(f"    {n} more time(s) in the duplicated run: t={at:.3f}ms via {label} to {addr}: {describe(data)}")
        for (at, label, addr, data), n in sorted((ref_count - dup_count).items()):
            print(f"    {n} more time(s) in the reference run:  t={at:.3f}ms via {label} to {addr}: {describe(data)}")
        if ref_called != dup_called:
            print("    callbacks in the reference run:")
            for entry in ref_called:
                print(f"      {entry}")
            print("    callbacks in the duplicated run:")
            for entry in dup_called:
                print(f"      {entry}")
    if failures:
        print("DEFECT REPRODUCED: the property requires the same listener callbacks with and without duplication; "
              "a duplicated response that echoes a QU question is processed twice")
        return 1
    print("OK: back-to-back duplicates changed nothing")
    return 0


if __name__ == "__main__":
    sys.exit(main())

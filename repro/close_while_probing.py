"""async_close() requested while another registration is still probing and a registered service exists:
the probing finishes during the 250 ms goodbye sequence, the new service is registered and announced,
and it is never withdrawn (no goodbye) before the sockets close."""
import asyncio, sys, time, socket
from zeroconf import ServiceInfo, DNSIncoming, const
from zeroconf.asyncio import AsyncZeroconf
import zeroconf._core as core

async def main():
    aiozc = AsyncZeroconf(interfaces=['127.0.0.1'])
    zc = aiozc.zeroconf
    await zc.async_wait_for_start()
    sent = []
    orig = core.async_send_with_transport
    def cap(log_debug, transport, packet, packet_num, out, addr, port, v6_flow_scope=()):
        m = DNSIncoming(packet)
        for r in m.answers():
            if r.type == const._TYPE_PTR and m.is_response():
                sent.append((round((time.monotonic() - t0) * 1000), r.alias, r.ttl))
    core.async_send_with_transport = cap
    t0 = time.monotonic()
    s1 = ServiceInfo('_cwp._tcp.local.', 'one._cwp._tcp.local.', 80, 0, 0, {}, 'h1.local.', addresses=[socket.inet_aton('10.0.0.1')])
    s2 = ServiceInfo('_cwp._tcp.local.', 'two._cwp._tcp.local.', 80, 0, 0, {}, 'h2.local.', addresses=[socket.inet_aton('10.0.0.2')])
    await (await aiozc.async_register_service(s1))
    t0 = time.monotonic()
    reg2 = asyncio.ensure_future(aiozc.async_register_service(s2))   # probes at 0, 175, 350 -> registers at ~350 ms
    await asyncio.sleep(0.2)
    await aiozc.async_close()                                       # goodbyes of `one` at 200, 325, 450 ms
    await asyncio.sleep(0.3)
    reg2.cancel()
    two = [(t, ttl) for t, a, ttl in sent if a.startswith('two.')]
    print('responses carrying the PTR of `two`:', two)
    if any(ttl > 0 for _, ttl in two) and not any(ttl == 0 for _, ttl in two):
        print('DEFECT: `two` was announced during the close and never withdrawn'); sys.exit(1)
    print('ok')
asyncio.run(main())

"""A tiny strict RFC 1035 message parser used as the reference by pre1.py / pre2.py.

Strict means: labels are 1..63 octets, a name is at most 255 octets on the wire (length octets and the
root octet included, section 2.3.4 / 3.1), compression pointers must point strictly backwards to an
earlier offset (section 4.1.4 "a prior occurance"), section counts must match, no trailing octets.
Only what the two reproductions need is decoded: questions and A records.
Returns (questions, records) as lists of tuples, or raises ValueError.
"""
import struct


def read_name(data: bytes, off: int):
    labels = []
    wire = 1  # the root octet
    end = None
    limit = off  # pointers must go strictly below the position of the pointer that is being followed
    while True:
        if off >= len(data):
            raise ValueError("name runs past the end of the message")
        length = data[off]
        if length == 0:
            off += 1
            break
        if length & 0xC0 == 0xC0:
            if off + 1 >= len(data):
                raise ValueError("truncated pointer")
            target = (length & 0x3F) << 8 | data[off + 1]
            if target >= limit:
                raise ValueError("pointer does not point to a prior occurrence")
            if end is None:
                end = off + 2
            limit = target
            off = target
            continue
        if length & 0xC0:
            raise ValueError("reserved label type")
        if off + 1 + length > len(data):
            raise ValueError("label runs past the end of the message")
        wire += 1 + length
        if wire > 255:
            raise ValueError("name longer than 255 octets")
        labels.append(data[off + 1 : off + 1 + length].decode("utf-8"))
        off += 1 + length
        if limit < off and end is None:
            limit = off  # still in the original, uncompressed part
    return ".".join(labels) + ".", (end if end is not None else off)


def parse(data: bytes):
    if len(data) < 12:
        raise ValueError("short header")
    _id, _flags, qd, an, ns, ar = struct.unpack_from("!6H", data, 0)
    off = 12
    questions = []
    for _ in range(qd):
        name, off = read_name(data, off)
        type_, class_ = struct.unpack_from("!HH", data, off)
        off += 4
        questions.append((name, type_, class_))
    records = []
    for _ in range(an + ns + ar):
        name, off = read_name(data, off)
        type_, class_, ttl, rdlen = struct.unpack_from("!HHIH", data, off)
        off += 10
        if off + rdlen > len(data):
            raise ValueError("rdata runs past the end of the message")
        if type_ != 1 or rdlen != 4:
            raise ValueError("only A records are handled by this reference")
        records.append((name, type_, class_, ttl, data[off : off + 4]))
        off += rdlen
    if off != len(data):
        raise ValueError("trailing octets")
    return questions, records

"""C18 pre-existing defect 2: SRV (or TXT) flip-flop inside the purge window hides the live record.

Clauses violated: "When the cache already suffices it answers without transmitting anything" and "omitting questions whose
answers it already holds" (it omits the SRV question although it did NOT load any SRV), and as a result "it succeeds iff by
then it knows at least one address of the service's host" (returns False with a live SRV and a live A in the cache).
Quantifier: cache states "SRV ... present, fresh ... or expired but unpurged", "SRV pointing at a host with addresses".
For TXT the same history gives a successful lookup whose TXT is empty although a live TXT record is cached ("TXT ... taken
from ... TXT records for that instance that had not expired").

Failing history (three responses, each more than 1 s after the previous one, all within the 10 s purge period):
  t-3.5 s  SRV_a (inst -> host-a:80, cache-flush) + A host-a
  t-2.3 s  SRV_b (inst -> host-b:81, cache-flush)      -> SRV_a is marked to expire in 1 s
  t-1.1 s  SRV_a again                                 -> SRV_a is refreshed IN PLACE (keeps its older position in the
                                                          cache bucket), SRV_b is marked to expire in 1 s
  t        lookup: SRV_b has expired but is not purged. cache.get_by_details() returns the entry added last, SRV_b;
           it is rejected as expired and the lookup never looks at the live SRV_a. The query generator, however, sees
           the live SRV_a as a known answer and drops the SRV question.

Small safe fix: yes. In ServiceInfo._load_from_cache pick the newest UNEXPIRED record (iterate
cache.get_all_by_details(name, type, class) in reverse and take the first one that is not expired) instead of
get_by_details(); alternatively make the record manager re-insert a refreshed record so that position tracks recency.
"""
import asyncio
import socket
import sys

from zeroconf import DNSAddress, DNSIncoming, DNSOutgoing, DNSService, DNSText, const, current_time_millis
from zeroconf.asyncio import AsyncServiceInfo, AsyncZeroconf

TYPE = "_c18pre2._tcp.local."
NAME = f"Cam-5d01.{TYPE}"
HOST_A = "cam-a-5d01.local."
HOST_B = "cam-b-5d01.local."
UNIQUE_IN = const._CLASS_IN | const._CLASS_UNIQUE
TIMEOUT = 200


def response(records, at: float) -> DNSIncoming:
    out = DNSOutgoing(const._FLAGS_QR_RESPONSE | const._FLAGS_AA)
    for record in records:
        out.add_answer_at_time(record, 0)
    # `now` is the reception time the listener would have stamped on the datagram
    return DNSIncoming(out.packets()[0], ("127.0.0.1", const._MDNS_PORT), None, at)


def srv(port: int, host: str) -> DNSService:
    return DNSService(NAME, const._TYPE_SRV, UNIQUE_IN, 120, 0, 0, port, host)


def txt(text: bytes) -> DNSText:
    return DNSText(NAME, const._TYPE_TXT, UNIQUE_IN, 4500, text)


async def main() -> int:
    aiozc = AsyncZeroconf(interfaces=["127.0.0.1"])
    zc = aiozc.zeroconf
    await zc.async_wait_for_start()
    sent = []
    zc.async_send = lambda out, addr=None, port=const._MDNS_PORT, v6_flow_scope=(), transport=None: sent.append(out)

    t = current_time_millis()
    rm = zc.record_manager
    rm.async_updates_from_response(
        response(
            [srv(80, HOST_A), txt(b"\x05v=one"), DNSAddress(HOST_A, const._TYPE_A, UNIQUE_IN, 120, socket.inet_aton("10.0.0.2"))],
            t - 3500,
        )
    )
    rm.async_updates_from_response(response([srv(81, HOST_B), txt(b"\x05v=two")], t - 2300))
    rm.async_updates_from_response(response([srv(80, HOST_A), txt(b"\x05v=one")], t - 1100))

    now = current_time_millis()
    srvs = [(r.server, r.port, "expired" if r.is_expired(now) else "live")
            for r in zc.cache.get_all_by_details(NAME, const._TYPE_SRV, const._CLASS_IN)]
    txts = [(r.text, "expired" if r.is_expired(now) else "live")
            for r in zc.cache.get_all_by_details(NAME, const._TYPE_TXT, const._CLASS_IN)]
    addrs = [(socket.inet_ntoa(r.address), "expired" if r.is_expired(now) else "live")
             for r in zc.cache.get_all_by_details(HOST_A, const._TYPE_A, const._CLASS_IN)]
    print(f"cache before the lookup: SRV={srvs} TXT={txts} A({HOST_A})={addrs}")

    info = AsyncServiceInfo(TYPE, NAME)
    began = current_time_millis()
    ok = await info.async_request(zc, TIMEOUT)
    took = current_time_millis() - began
    questions = [[(q.name, const._TYPES.get(q.type), "QU" if q.unicast else "QM") for q in o.questions] for o in sent]
    await aiozc.async_close()

    print(f"observed: async_request -> {ok} after {took:.0f} ms (timeout {TIMEOUT}); server={info.server!r} "
          f"port={info.port!r} text={info.text!r} addresses={info.parsed_addresses()}")
    print(f"          queries sent: {questions}")
    print("required: the cache holds a live SRV (host-a:80), a live TXT (v=one) and a live A record of host-a, so the "
          "lookup must return True at once with that data and transmit nothing; if it does transmit, it must not omit "
          "the SRV question, because it holds no SRV answer")
    asked_srv = any(q.type == const._TYPE_SRV for o in sent for q in o.questions)
    if ("cam-a-5d01.local.", 80, "live") in srvs and (not ok or sent):
        print(f"DEFECT REPRODUCED: live SRV ignored (expired-unpurged SRV_b shadows it); SRV question asked: {asked_srv}")
        return 1
    print("not reproduced")
    return 0


if __name__ == "__main__":
    sys.exit(asyncio.run(main()))

"""C02 pre-existing defect 2: a memoised root name is treated as a memo miss, so a valid chain of pointers
to the root name is chased hop by hop and hits the pointer-depth limit.

Clause violated: "Whenever a strict RFC 1035 parser accepts the datagram and it uses only supported record
types, the decoded questions and records equal the strict parser's."  (It also shows the memo not bounding
the pointer chasing: record k costs k-1 nested calls instead of one.)

Failing input (inside the quantifier: a well-formed 3211-byte response, a "grammar-generated chain"): 200 A
records.  Record 1 is owned by the root name (a single zero octet at offset 12); the owner name of record k
is a 2-byte compression pointer to the owner name of record k-1.  Every pointer points strictly backwards to
an earlier name, so a strict parser accepts and gives 200 records owned by ".".
DNSIncoming returns valid=False and only 129 answers ("Maximum dns compression pointers reached" at record
130).  The identical datagram with the first owner name "a." instead of "." decodes all 200 records.

Cause: in DNSIncoming._decode_labels_at_offset the memo lookup is
    linked_labels = self._name_cache.get(link); if not linked_labels: <follow the pointer again>
and the memoised labels of the root name are the empty list, which is falsy; so every pointer whose target
resolves to the root is re-resolved recursively, the depth grows by one per record and passes MAX_DNS_LABELS.

Small safe fix: yes.  Test `linked_labels is None` instead of `not linked_labels`; memo entries are only
written after a successful decode, so an empty list is a complete, correct result for the root name.
"""
import struct
import sys

from zeroconf import DNSIncoming

import strictref

N = 200


def chain(first_owner: bytes) -> bytes:
    def rr(name: bytes) -> bytes:
        return name + struct.pack("!HHIH", 1, 1, 120, 4) + b"\x0a\x00\x00\x01"

    out = struct.pack("!6H", 0, 0x8400, 0, N, 0, 0) + rr(first_owner)
    prev = 12
    for _ in range(N - 1):
        cur = len(out)
        out += rr(bytes([0xC0 | (prev >> 8), prev & 0xFF]))
        prev = cur
    return out


def main() -> int:
    failures = 0
    for label, first in (("chain ending in the root name '.'", b"\x00"), ("same chain ending in 'a.'", b"\x01a\x00")):
        data = chain(first)
        ref_questions, ref_records = strictref.parse(data)  # raises if the strict parser rejects
        calls = 0

        def profiler(frame, event, arg):
            nonlocal calls
            if event == "call" and frame.f_code.co_name == "_decode_labels_at_offset":
                calls += 1

        sys.setprofile(profiler)
        try:
            msg = DNSIncoming(data, ("192.0.2.1", 5353))
            answers = msg.answers()
        finally:
            sys.setprofile(None)
        records = [(r.name, r.type, r.class_, r.ttl, r.address) for r in answers]
        print(f"{label}: datagram of {len(data)} bytes, {N} A records")
        print(f"    strict parser : accepts, {len(ref_records)} records, owners {sorted({r[0] for r in ref_records})}")
        print(
            f"    DNSIncoming   : valid={msg.valid}, {len(records)} records, "
            f"{calls} calls of _decode_labels_at_offset"
        )
        if not msg.valid or records != ref_records:
            failures += 1
            print("    -> MISMATCH: the property requires the decoded records to equal the strict parser's")
    if failures:
        print("DEFECT REPRODUCED: a strictly valid datagram is marked invalid and loses records")
        return 1
    print("not reproduced")
    return 0


if __name__ == "__main__":
    sys.exit(main())

"""Pre-existing defect 1 (property C10), UNCHANGED tree: lateness of the rescue steps accumulates.

Clause violated: "each record that stays unrefreshed is queried for at about 75 percent of its TTL and again at
further 10 percent steps until it expires (each at most the configured inter-query delay late)".

Failing input (inside the quantifier: delay 60 s, TTL at the 1125 s floor, one type, record left to expire):
a browser with delay=60000 ms learns one pointer record with TTL 1125 s at such a moment that its 75 % point falls
1 s after a pass of the scheduler.  The 75 % question goes out 59 s late (allowed).  schedule_rescue_query() then
adds 10 % of the TTL to the time that question was SENT, not to the time it was DUE, and the result is again rounded
up to the next pass: the 85 % question is sent 66.5 s after the 85 % point (> the 60 s delay) and the next step
(sent time + 112.5 s) lies beyond the expiry, so the 95 % question is never sent: two attempts instead of three.

Small safe fix: in QueryScheduler.schedule_rescue_query compute `next_query_time` from `query.when_millis` (the time
the popped query was due) instead of `now_millis`; a result that is already in the past is simply served by the next
pass, so the steps stay at 75/85/95 % + at most one delay.  Library not changed here.
"""

import asyncio
import random
import sys
import time
from unittest.mock import patch

import zeroconf._core as _core
from zeroconf import DNSIncoming, DNSOutgoing, DNSPointer, ServiceStateChange, const
from zeroconf.asyncio import AsyncServiceBrowser, AsyncZeroconf

TYPE = "_c10pre1._tcp.local."
NAME = "unit." + TYPE
TTL = 1125
DELAY = 60
STEP = 0.25


class Clock:
    now = 3000.0

    def monotonic(self) -> float:
        return self.now


async def main() -> int:
    clock = Clock()
    random.seed(1)
    with patch.object(time, "monotonic", clock.monotonic), patch.object(
        _core, "create_sockets", lambda *a, **kw: (None, [])
    ):
        start = clock.now

        async def advance_to(target: float) -> None:
            target += start
            while clock.now + STEP < target:
                clock.now += STEP
                await asyncio.sleep(0)
                await asyncio.sleep(0)  # timers of this tick run before the clock moves on
            clock.now = target
            await asyncio.sleep(0)
            await asyncio.sleep(0)

        def rel() -> float:
            return clock.now - start

        aiozc = AsyncZeroconf(interfaces=["127.0.0.1"])
        zc = aiozc.zeroconf
        await zc.async_wait_for_start()
        sent = []
        callbacks = []

        def capture_send(out, addr=None, port=const._MDNS_PORT, v6_flow_scope=(), transport=None):
            for packet in out.packets():
                sent.append((rel(), [q.name for q in DNSIncoming(packet).questions]))

        def on_change(zeroconf, service_type, name, state_change):
            callbacks.append((rel(), state_change, name))

        with patch.object(zc, "async_send", capture_send):
            browser = AsyncServiceBrowser(zc, TYPE, handlers=[on_change], delay=DELAY * 1000)
            await advance_to(20)
            assert len(sent) == 4, sent
            startup = len(sent)
            # the scheduler passes run every DELAY seconds after the fourth start-up query
            pass_time = sent[-1][0] + 15 * DELAY
            learned = pass_time + 1 - 0.75 * TTL
            await advance_to(learned)
            out = DNSOutgoing(const._FLAGS_QR_RESPONSE)
            out.add_answer_at_time(DNSPointer(TYPE, const._TYPE_PTR, const._CLASS_IN, TTL, NAME), 0)
            zc.record_manager.async_updates_from_response(DNSIncoming(out.packets()[0]))
            await advance_to(learned + TTL + 30)
            await browser.async_cancel()
        await aiozc.async_close()

    removed = [w for w, change, name in callbacks if change is ServiceStateChange.Removed and name == NAME]
    assert removed, callbacks
    attempts = [w for w, names in sent[startup:] if TYPE in names and w < removed[0]]
    print(f"delay {DELAY}s, TTL {TTL}s, learned at {learned:.2f}s, expires {learned + TTL:.2f}s, Removed at {removed[0]:.2f}s")
    print(f"questions sent for the type: {['%.2f' % w for w in attempts]}")
    bad = 0
    for pct in (75, 85, 95):
        due = learned + pct / 100 * TTL
        hits = [w for w in attempts if due - 0.001 <= w <= due + DELAY + STEP]
        later = [w for w in attempts if w >= due - 0.001]
        if hits:
            print(f"  {pct}% point {due:.2f}s: served at {hits[0]:.2f}s ({hits[0] - due:.2f}s late)  ok")
        else:
            bad += 1
            what = f"first question after it at {later[0]:.2f}s ({later[0] - due:.2f}s late)" if later else "never served"
            print(f"  {pct}% point {due:.2f}s: NOT served within the {DELAY}s delay: {what}")
    if bad:
        print("DEFECT: the property requires a question at 75%, 85% and 95% of the TTL, each at most the delay late")
        return 1
    print("not reproduced")
    return 0


if __name__ == "__main__":
    sys.exit(asyncio.run(main()))

"""sync unregister_service() returns before the goodbye sequence has run; close() right after drops goodbyes 2 and 3."""
import sys, time, socket
from zeroconf import Zeroconf, ServiceInfo, DNSIncoming, const
import zeroconf._core as core

zc = Zeroconf(interfaces=['127.0.0.1'])
sent = []
orig = core.async_send_with_transport
def cap(log_debug, transport, packet, packet_num, out, addr, port, v6_flow_scope=()):
    m = DNSIncoming(packet)
    for r in m.answers():
        if r.type == const._TYPE_PTR:
            sent.append(r.ttl)
    return orig(log_debug, transport, packet, packet_num, out, addr, port, v6_flow_scope)
core.async_send_with_transport = cap
info = ServiceInfo('_rep2._tcp.local.', 'y._rep2._tcp.local.', 80, 0, 0, {'a': 'b'}, 'yhost.local.', addresses=[socket.inet_aton('10.0.0.2')])
zc.register_service(info)
n0 = len(sent)
t = time.monotonic()
zc.unregister_service(info)
dt = time.monotonic() - t
zc.close()
time.sleep(0.5)
goodbyes = [x for x in sent[n0:] if x == 0]
# each goodbye is sent on every socket; count distinct transmissions per socket
print('unregister_service returned after %.0f ms; goodbye PTR packets seen after it: %d (sockets: 2)' % (dt*1000, len(goodbyes)))
if len(goodbyes) < 3 * 1:
    print('DEFECT: fewer than three goodbyes were transmitted'); sys.exit(1)
print('ok')

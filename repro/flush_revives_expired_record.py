"""Pre-existing defect 2 (property C05) - a cache-flush response gives a record whose TTL has ALREADY fully elapsed
(but which the periodic purge has not collected yet) a new lease of one second, and every further cache-flush response more
than 1 s later renews that lease again; a purge that runs inside such a lease does not remove the dead record.

Clause violated: "A purge removes exactly the records whose TTL has fully elapsed" and "returns the same records with the
same creation time and TTL as a plain reference model of RFC 6762 section 10" (10.2 says the older members of the rrset
are *invalidated* and expire at the latest in one second; it never extends a lifetime).  Quantifier: TTL in {1, 2, 120},
cache-flush bit on, clock steps around TTL expiry instants, the 1 s flush window and the 10 s purge period.

Failing history (all records host.local. A, class IN with the cache-flush bit):
  t0        datagram [A 10.0.0.1 ttl=2]                      -> 10.0.0.1 runs out at t0+2s (next purge is at t0+10s)
  t0+9.5s   datagram [A 10.0.0.2 ttl=120]                    -> the library rewrites 10.0.0.1 to created=t0+9.5s, ttl=1
  t0+10s    purge                                            -> required: removes 10.0.0.1 (dead for 8 s); observed: nothing
  t0+19.5s  datagram [A 10.0.0.2 ttl=120] (a re-announcement) -> lease renewed again: created=t0+19.5s, ttl=1
  t0+20s    purge                                            -> again nothing removed; 18 s after its TTL ran out the record
                                                                is still returned by every lookup path as not expired.
  A sender that re-announces with the period of the purge keeps the dead address alive indefinitely.

Small safe fix (not applied): in DNSCache.async_mark_unique_records_older_than_1s_to_expire only ever SHORTEN a lifetime:
skip the record when it expires within the next second anyway, e.g. add `and not record.is_expired(now + _ONE_SECOND)` (or
at least `and not record.is_expired(now)`) to the condition.  One line, local, and the existing flush test still holds.
"""
import sys

from zeroconf import DNSAddress, DNSCache, DNSIncoming, DNSOutgoing, const
from zeroconf._handlers.record_manager import RecordManager

FLUSH = const._CLASS_IN | const._CLASS_UNIQUE


class StubZeroconf:
    def __init__(self):
        self.cache = DNSCache()
        self.record_manager = RecordManager(self)

    def async_notify_all(self):
        pass


def addr(last, ttl):
    return DNSAddress("host.local.", const._TYPE_A, FLUSH, ttl, bytes((10, 0, 0, last)))


def send(zc, records, now):
    out = DNSOutgoing(const._FLAGS_QR_RESPONSE | const._FLAGS_AA, multicast=True)
    for record in records:
        out.add_answer_at_time(record, 0)
    (packet,) = out.packets()
    zc.record_manager.async_updates_from_response(DNSIncoming(packet, ("192.0.2.1", 5353), None, now))


def show(zc, now):
    return [
        (r.address[-1], f"created=t0+{(r.created - T0) / 1000:g}s", f"ttl={r.ttl}", "expired" if r.is_expired(now) else "live")
        for r in zc.cache.get_all_by_details("host.local.", const._TYPE_A, const._CLASS_IN)
    ]


T0 = 1_000_000.0


def main():
    zc = StubZeroconf()
    old = addr(1, 2)
    bad = 0

    send(zc, [addr(1, 2)], T0)
    print("t0       learnt 10.0.0.1 ttl=2:", show(zc, T0))
    print("t0+9.5s  before the flush, 10.0.0.1 is", show(zc, T0 + 9500)[0][3], "(TTL ran out at t0+2s, purge pending)")

    for round_, (t_flush, t_purge) in enumerate(((9500, 10_000), (19_500, 20_000)), 1):
        send(zc, [addr(2, 120)], T0 + t_flush)
        print(f"t0+{t_flush / 1000:g}s  cache-flush response [10.0.0.2 ttl=120]:", show(zc, T0 + t_flush))
        removed = zc.cache.async_expire(T0 + t_purge)
        still = zc.cache.get(old)
        print(f"t0+{t_purge / 1000:g}s  purge removed {[r.address[-1] for r in removed]}")
        print("          required: the purge removes 10.0.0.1 - its TTL of 2 s fully elapsed at t0+2s and it was never refreshed")
        if still is not None:
            bad += 1
            print(
                f"          observed: 10.0.0.1 survives purge #{round_}; get() -> created=t0+{(still.created - T0) / 1000:g}s "
                f"ttl={still.ttl} is_expired={still.is_expired(T0 + t_purge)}; by name: "
                f"{[r.address[-1] for r in zc.cache.entries_with_name('HOST.local.')]}"
            )

    if bad:
        print(f"DEFECT: a record dead since t0+2s is still served at t0+20s; it survived {bad} purge(s) because each flush renewed it.")
        return 1
    print("not reproduced")
    return 0


if __name__ == "__main__":
    sys.exit(main())

"""unregister while the registration is still announcing: an announcement (full TTL) follows the last goodbye."""
import asyncio, time, sys
from zeroconf import ServiceInfo, DNSIncoming, const
from zeroconf.asyncio import AsyncZeroconf
import socket

async def main():
    aiozc = AsyncZeroconf(interfaces=['127.0.0.1'])
    zc = aiozc.zeroconf
    await zc.async_wait_for_start()
    sent = []
    orig = zc.async_send
    def cap(out, addr=None, port=const._MDNS_PORT, v6_flow_scope=(), transport=None):
        for p in out.packets():
            m = DNSIncoming(p)
            for r in m.answers():
                if r.type == const._TYPE_PTR:
                    sent.append((round((time.monotonic()-t0)*1000), r.ttl))
    zc.async_send = cap
    info = ServiceInfo('_rep._tcp.local.', 'x._rep._tcp.local.', 80, 0, 0, {'a': 'b'}, 'xhost.local.', addresses=[socket.inet_aton('10.0.0.1')])
    global t0
    t0 = time.monotonic()
    task = await aiozc.async_register_service(info)      # probes (3 x 175ms), then returns the announce task
    t0 = time.monotonic()
    await asyncio.sleep(0.1)                              # first announcement has gone out
    gb = await aiozc.async_unregister_service(info)      # goodbyes at +0, +125, +250 from now
    await gb
    last_goodbye = max(t for t, ttl in sent if ttl == 0)
    await asyncio.sleep(0.6)
    late = [(t, ttl) for t, ttl in sent if ttl != 0 and t > last_goodbye]
    print('PTR transmissions (ms, ttl):', sent)
    zc.async_send = orig
    await aiozc.async_close()
    if late:
        print('DEFECT: announced with positive TTL after the last goodbye:', late); sys.exit(1)
    print('ok')
asyncio.run(main())

"""A service description created WITHOUT a server name gets its instance name as host name at its first registration
(set_server_if_missing).  Register it, unregister it, let a peer take the name, and register the same object again with
renaming allowed: it is registered as `kitchen-2`, but its host name is still the OLD instance name -- the conflicting
`kitchen._rrk._tcp.local.` -- so the SRV target, the A record (cache-flush bit set) and the NSEC record of the renamed
service are announced under the conflicting name.  Property C09: "the conflicting name is never announced or answered for".
(The first registration took the same effect through a different path before 1cac9f4.)"""
import asyncio, sys, socket
from zeroconf import ServiceInfo, DNSIncoming, DNSPointer, const, current_time_millis
from zeroconf.asyncio import AsyncZeroconf
import zeroconf._core as core

TYPE = '_rrk._tcp.local.'
NAME = 'kitchen._rrk._tcp.local.'


async def main():
    aiozc = AsyncZeroconf(interfaces=['127.0.0.1'])
    zc = aiozc.zeroconf
    await zc.async_wait_for_start()
    owners = []

    def cap(log_debug, transport, packet, packet_num, out, addr, port, v6_flow_scope=()):
        m = DNSIncoming(packet)
        if m.is_response():
            for r in m.answers():
                if r.ttl:
                    owners.append((r.name, r.type, getattr(r, 'server', None)))

    info = ServiceInfo(TYPE, NAME, 80, 0, 0, {}, addresses=[socket.inet_aton('10.0.0.1')])   # no server given
    real = core.async_send_with_transport
    core.async_send_with_transport = lambda *a, **k: None
    await (await aiozc.async_register_service(info))
    await (await aiozc.async_unregister_service(info))
    # a peer takes the name while we are away
    zc.cache.async_add_records([DNSPointer(TYPE, const._TYPE_PTR, const._CLASS_IN, 4500, NAME, current_time_millis())])
    core.async_send_with_transport = cap
    await (await aiozc.async_register_service(info, allow_name_change=True))
    core.async_send_with_transport = lambda *a, **k: None
    await aiozc.async_close()
    print('registered as', info.name, 'host', info.server)
    bad = sorted({(n, t, s) for n, t, s in owners if (t in (const._TYPE_A, const._TYPE_AAAA, const._TYPE_NSEC) and n.lower() == NAME) or (s or '').lower() == NAME})
    for b in bad:
        print('announced under the conflicting name:', b)
    if info.name.lower() != NAME and bad:
        print('DEFECT: the renamed service announced records under the conflicting name'); sys.exit(1)
    print('ok')


asyncio.run(main())

"""Pre-existing defect 1 (property C19): a lone surrogate in the instance / subtype portion
makes service_type_name raise UnicodeEncodeError.

Clause violated: "... and rejects everything else with BadTypeInNameException and no other error"
(quantifier: all strings up to 300 characters, non-ASCII instance labels, random strings - a Python str
may contain lone surrogates, e.g. a name decoded with errors='surrogateescape').

Failing input: '\ud800._http._tcp.local.' (both strict modes), 'x\udcffy._sub._http._tcp.local.',
and '\ud800.local.' with strict=False.  The 63-byte check does `remaining[0].encode('utf-8')`, which
raises UnicodeEncodeError before anything can reject the name.

A small safe fix exists: encode with errors='surrogatepass' (or catch UnicodeEncodeError) in the length
check and raise BadTypeInNameException; building the message must then avoid formatting problems only
when it is printed, which is the caller's business.  The library is NOT changed here.
"""
import sys

from zeroconf import BadTypeInNameException, service_type_name

CASES = [
    ("\ud800._http._tcp.local.", True),
    ("\ud800._http._tcp.local.", False),
    ("x\udcffy._sub._http._tcp.local.", True),
    ("\ud800.local.", False),
]
bad = 0
for name, strict in CASES:
    try:
        result = "accepted -> %s" % ascii(service_type_name(name, strict=strict))
    except BadTypeInNameException:
        result = "BadTypeInNameException"
    except Exception as exc:  # pylint: disable=broad-except
        result = "OTHER ERROR %s" % type(exc).__name__
        bad += 1
    print("%-40s strict=%-5s -> %s" % (ascii(name), strict, result))

print("the property requires: the type is returned or BadTypeInNameException is raised, no other error")
if bad:
    print("DEFECT REPRODUCED: %d names raised something else" % bad)
    sys.exit(1)
print("not reproduced")

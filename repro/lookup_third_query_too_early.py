"""C13 pre-existing defect 4: the second and third query of a lookup are only 220-320 ms apart.

Clause violated: "a lookup spaces its queries at least one second apart after the second" -- IF "after the
second" means every gap that follows the second query (if it means "from the third query on", this is not a
violation; the gaps after the third query are >= 1019 ms on the clean tree).

Failing history: AsyncServiceInfo.async_request with a 3 s timeout, empty cache, default question type.
Query 1 (QU) at t=0, query 2 (QM: SRV, TXT, A, AAAA of the instance name) at t=220..320 ms. At t=300 ms an SRV
answer naming host-a.local. arrives through the listener; no address of host-a is known, so the lookup is still
incomplete. Query 3 (QM: TXT?, A, AAAA of host-a.local.) is SENT about 200+random ms after query 2, not >= 1 s
after it. Cause: in the loop `next_ = now + delay` is computed before `delay` is raised to 999 ms for "we just
asked a QM question", so the raise only takes effect one query later. Without the SRV answer the third query is
generated at the same early time too, but is swallowed by the lookup's own history entry (same questions); with
changed questions (or a known answer that went stale in between) nothing swallows it.
tests/services/test_info.py::test_get_info_partial relies on this quick third query.

Fix: a two-line reordering (raise `delay` before computing `next_`) gives >= 1019 ms after every QM query; it is
safe for the protocol but makes resolution after a late SRV up to a second slower and needs the waits in
test_get_info_partial (wait_time = 1) enlarged.
"""
import asyncio
import random
import sys

from zeroconf import DNSIncoming, DNSOutgoing, DNSService, const
from zeroconf.asyncio import AsyncServiceInfo, AsyncZeroconf

# ---- helpers (settable clock, quiet instance, query builder) ----
import socket
import sys

import zeroconf  # noqa: F401
from zeroconf import DNSOutgoing, DNSQuestion, ServiceInfo, const
from zeroconf.asyncio import AsyncZeroconf

CLOCK = [50_000_000.0]  # milliseconds


def now():
    return CLOCK[0]


def patch_clock(fn=now):
    for name, module in list(sys.modules.items()):
        if name.startswith("zeroconf") and hasattr(module, "current_time_millis"):
            module.current_time_millis = fn


async def quiet_zeroconf(types):
    """A started instance that sends nothing and is authoritative for one service of each type."""
    aiozc = AsyncZeroconf(interfaces=["127.0.0.1"])
    zc = aiozc.zeroconf
    await zc.async_wait_for_start()
    zc.async_send = lambda *a, **k: None
    for type_ in types:
        zc.registry.async_add(
            ServiceInfo(type_, "mine." + type_, 80, 0, 0, {}, "c13-host.local.", addresses=[socket.inet_aton("10.1.2.3")])
        )
    return aiozc, zc


def ptr_query(types, known_answers, at):
    out = DNSOutgoing(const._FLAGS_QR_QUERY)
    for type_ in types:
        out.add_question(DNSQuestion(type_, const._TYPE_PTR, const._CLASS_IN))  # QM
    for record in known_answers:
        out.add_answer_at_time(record, at)
    packets = out.packets()
    assert len(packets) == 1
    return packets[0]
# ---- end of helpers ----


TYPE = "_c13pre4._tcp.local."
NAME = "inst." + TYPE


class VirtualClockLoop(asyncio.SelectorEventLoop):
    """Event loop whose clock jumps to the next timer instead of sleeping."""

    def __init__(self):
        super().__init__()
        self._vt = 7000.0

    def time(self):
        return self._vt

    def _run_once(self):
        if not self._ready and self._scheduled:
            when = self._scheduled[0]._when
            if when > self._vt:
                self._vt = when
        super()._run_once()


loop = VirtualClockLoop()
asyncio.set_event_loop(loop)
patch_clock(lambda: loop.time() * 1000)
random.seed(13)


def srv_response(server):
    out = DNSOutgoing(const._FLAGS_QR_RESPONSE | const._FLAGS_AA)
    out.add_answer_at_time(
        DNSService(NAME, const._TYPE_SRV, const._CLASS_IN | const._CLASS_UNIQUE, 120, 0, 0, 80, server), 0
    )
    return out.packets()[0]


async def main():
    aiozc = AsyncZeroconf(interfaces=["127.0.0.1"])
    zc = aiozc.zeroconf
    await zc.async_wait_for_start()
    sent = []
    start = loop.time() * 1000

    def capture(out, addr=None, port=const._MDNS_PORT, v6_flow_scope=(), transport=None):
        questions = [q for packet in out.packets() for q in DNSIncoming(packet).questions]
        sent.append((loop.time() * 1000 - start, questions))

    zc.async_send = capture
    listener = zc.engine.protocols[0]
    loop.call_at(
        loop.time() + 0.300, listener.datagram_received, srv_response("host-a.local."), ("127.0.0.1", 5353)
    )
    await AsyncServiceInfo(TYPE, NAME).async_request(zc, 3000)
    await aiozc.async_close()
    return sent


sent = loop.run_until_complete(main())
for when, questions in sent:
    kinds = ", ".join(
        f"{q.name}/{const._TYPES.get(q.type, q.type)}/{'QU' if q.unicast else 'QM'}" for q in questions
    )
    print(f"  t={when:8.1f} ms  {kinds}")
times = [when for when, _ in sent]
gaps = [times[i] - times[i - 1] for i in range(1, len(times))]
print("gaps between consecutive queries (ms):", [round(g, 1) for g in gaps])
print("required: every gap after the second query (i.e. all but the first) >= 1000 ms")
if any(gap < 1000 for gap in gaps[1:]):
    print(f"DEFECT: the third query follows the second after only {gaps[1]:.1f} ms")
    sys.exit(1)
print("not reproduced")

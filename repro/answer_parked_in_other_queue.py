"""Pre-existing defect 1 (property C12, UNCHANGED library): the two outgoing queues do not know of each other.

Clause violated: "Probe replies excepted, a record the host saw multicast less than one second before
the query arrived is not multicast again until at least one second after that sighting".

Exact history (one registered service, every query is the same single PTR question for its type, each from
a different source, gaps 1000 / 500 / 200 ms, all on the grid of the quantifier; the host sees its own
multicasts, as with IP_MULTICAST_LOOP):

  t=0     q1  -> pointer multicast at s1 in [20,120]                       (aggregation queue)
  t=1000  q2  -> pointer seen < 1 s ago: parked in the protected queue, due 2020..2120, latest 2200
  t=1500  q3  -> pointer last seen > 1 s ago: aggregation queue, multicast at s3 in [1520,1620]
  t=1700  q4  -> pointer seen at s3, 80..180 ms ago: must not be multicast again before s3+1000 >= 2520
  t=2200      -> the group parked for q2 is sent all the same: pointer multicast 580..680 ms after s3.

MulticastOutgoingQueue.async_ready removes what it sends from the groups still pending in ITS OWN queue
only; a record sent from out_queue stays pending in out_delay_queue (and vice versa), so it goes out twice
within a second although a query (q4) arrived in between for which the one-second rule applies.

Small safe fix (not applied): when a queue sends a batch, also drop those records from the pending groups of
the other queue whose queries arrived before the send (e.g. let QueryHandler/Zeroconf call
_remove_answers_from_queue on both queues, or let async_ready skip records whose cache entry was created
after the group was queued and less than a second ago). q4 keeps its own later group, so it is still answered.
"""
import asyncio
import heapq
import random
import socket
import sys

import zeroconf._handlers.multicast_outgoing_queue as _queue_mod
import zeroconf._listener as _listener_mod
from zeroconf import DNSIncoming, DNSOutgoing, DNSQuestion, ServiceInfo, const
from zeroconf.asyncio import AsyncZeroconf

BASE_MS = 1_700_000_000_000.0  # wall clock (ms) at virtual time 0


class _Handle:
    def __init__(self, when, callback, args):
        self._when, self._callback, self._args, self._cancelled = when, callback, args, False

    def cancel(self):
        self._cancelled = True

    def cancelled(self):
        return self._cancelled

    def when(self):
        return self._when


class VirtualLoop:
    """The part of the asyncio loop API the responder uses, on a virtual clock."""

    def __init__(self):
        self.ms = 0.0
        self._heap = []
        self._seq = 0

    def time(self):
        return self.ms / 1000.0

    def call_at(self, when, callback, *args):
        handle = _Handle(when, callback, args)
        self._seq += 1
        heapq.heappush(self._heap, (round(when * 1000.0, 3), self._seq, handle))
        return handle

    def call_later(self, delay, callback, *args):
        return self.call_at(self.time() + delay, callback, *args)

    def call_soon(self, callback, *args):
        return self.call_at(self.time(), callback, *args)

    def advance_to(self, target_ms):
        while self._heap and self._heap[0][0] <= target_ms:
            when_ms, _, handle = heapq.heappop(self._heap)
            if handle.cancelled():
                continue
            self.ms = max(self.ms, when_ms)
            handle._callback(*handle._args)
        self.ms = float(target_ms)


def wall_clock(vloop):
    return lambda: BASE_MS + vloop.ms



TYPE_ = "_c12pre._tcp.local."
OWN_ADDR = ("192.0.2.1", const._MDNS_PORT)


async def history(seed):
    random.seed(seed)
    aiozc = AsyncZeroconf(interfaces=["127.0.0.1"])
    zc = aiozc.zeroconf
    await zc.async_wait_for_start()
    info = ServiceInfo(
        TYPE_, f"unit.{TYPE_}", 80, 0, 0, {"path": "/"}, "c12-pre-host.local.", addresses=[socket.inet_aton("10.0.1.2")]
    )
    zc.registry.async_add(info)
    pointer = info.dns_pointer()
    protocol = zc.engine.protocols[0]

    vloop = VirtualLoop()
    real_loop, real_send = zc.loop, zc.async_send
    saved = (_listener_mod.current_time_millis, _queue_mod.current_time_millis)
    _listener_mod.current_time_millis = _queue_mod.current_time_millis = wall_clock(vloop)
    sent = []

    def record_send(out, addr=None, port=const._MDNS_PORT, v6_flow_scope=(), transport=None):
        if addr is not None:
            return
        for packet in out.packets():
            msg = DNSIncoming(packet)
            if pointer in msg.answers()[: msg.num_answers]:
                sent.append(vloop.ms)
            protocol.datagram_received(packet, OWN_ADDR)  # the host sees its own multicast

    zc.loop = vloop
    zc.async_send = record_send
    try:
        query = DNSOutgoing(const._FLAGS_QR_QUERY, multicast=True)
        query.add_question(DNSQuestion(TYPE_, const._TYPE_PTR, const._CLASS_IN))
        data = query.packets()[0]
        for n, at in enumerate((0, 1000, 1500, 1700)):
            vloop.advance_to(at)
            protocol.datagram_received(data, (f"192.0.2.{10 + n}", const._MDNS_PORT))
        vloop.advance_to(6000)
    finally:
        zc.loop, zc.async_send = real_loop, real_send
        _listener_mod.current_time_millis, _queue_mod.current_time_millis = saved
        zc.registry.async_remove(info)
        await aiozc.async_close()
    return sent


async def main():
    manifested = 0
    for seed in range(10):
        sent = await history(seed)
        seen_before_q4 = max(s for s in sent if s <= 1700)
        too_early = [s for s in sent if seen_before_q4 < s < seen_before_q4 + 1000]
        print(f"seed {seed}: pointer multicast at {sent}")
        if 1700 - seen_before_q4 < 1000 and too_early:
            manifested += 1
            print(
                f"   q4 arrived at 1700 ms, {1700 - seen_before_q4:.0f} ms after the pointer was seen on the wire "
                f"({seen_before_q4:.0f} ms); the property forbids multicasting it again before "
                f"{seen_before_q4 + 1000:.0f} ms, yet it went out at {too_early}"
            )
    if manifested:
        print(f"DEFECT MANIFESTS in {manifested} of 10 jitter draws")
        return 1
    print("not reproduced")
    return 0


if __name__ == "__main__":
    sys.exit(asyncio.run(main()))

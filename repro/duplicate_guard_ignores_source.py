"""Pre-existing defect 2 (property C11): duplicate-packet suppression ignores the source of the packet.

Clause violated: "A query from a source port other than 5353 gets a unicast reply to that address and port on
the receiving socket, echoing the query id and questions" (quantifier: all queries from any source address and
any source port, over histories).

Failing history: two different legacy unicast resolvers send byte-identical queries (same id, same QM question -
e.g. two stub resolvers that both use id 7, or the same one from two sockets) 300 ms apart, from 127.0.0.1:40000
and 127.0.0.9:41000.  AsyncListener._process_datagram_at_time compares only the bytes with the previous packet
on that socket (within 1 s, previous packet without QU question) and drops the second one, so the second
resolver never gets its unicast reply.  A retransmission from the *same* legacy source is dropped the same way
(that one is arguably intended); the point here is that a different querier is starved.

Fix: small and fairly safe - only suppress when the source is the same, or simply never suppress a query whose
source port is not 5353 (legacy queries, like QU ones, need their own unicast answer): remember `addrs` next to
`self.data` and add `and self.last_addrs == addrs` / `and port == _MDNS_PORT` to the guard.
"""
import asyncio
import socket
import sys
from unittest.mock import patch

from zeroconf import DNSIncoming, DNSOutgoing, DNSQuestion, ServiceInfo, Zeroconf, const

MCAST_ADDR = '224.0.0.251'


class Recorder:
    """Stands in for an asyncio DatagramTransport; remembers what is sent."""

    def __init__(self, label, log):
        self.label = label
        self.log = log

    def sendto(self, data, addr=None):
        self.log.append((self.label, addr, bytes(data)))

    def close(self):
        pass


def loopback_socket():
    s = socket.socket(socket.AF_INET, socket.SOCK_DGRAM)
    s.bind(('127.0.0.1', 0))
    s.setblocking(False)
    return s


class Clock:
    def __init__(self):
        self.now = 1_000_000.0

    def __call__(self):
        return self.now


class Harness:
    """A Zeroconf on private loopback sockets; nothing reaches the wire, the clock is virtual."""

    async def __aenter__(self):
        self.clock = Clock()
        self.log = []
        self._patches = [
            patch('zeroconf._core.create_sockets', return_value=(loopback_socket(), [loopback_socket()])),
            patch('zeroconf._listener.current_time_millis', self.clock),
        ]
        for p in self._patches:
            p.start()
        self.zc = Zeroconf(interfaces=['127.0.0.1'])
        await self.zc.async_wait_for_start()
        for i, wrapped in enumerate(self.zc.engine.senders):
            wrapped.transport.close()
            wrapped.transport = Recorder(f'respond-socket-{i}', self.log)
        for i, protocol in enumerate(self.zc.engine.protocols):
            protocol.transport.transport.close()
            protocol.transport.transport = Recorder(f'reader-{i}', self.log)
        self.rx = self.zc.engine.protocols[0]
        return self

    async def __aexit__(self, *exc):
        await self.zc._async_close()
        for p in self._patches:
            p.stop()

    def loop_back_announcement(self, info):
        for packet in self.zc.generate_service_broadcast(info, None).packets():
            self.rx.datagram_received(packet, ('127.0.0.1', 5353))

    def feed(self, data, src):
        """Feed one datagram; return (unicast, multicast) lists of (socket, dest, DNSIncoming)."""
        del self.log[:]
        self.rx.datagram_received(data, src)
        sent = [(label, dest, DNSIncoming(data)) for label, dest, data in self.log]
        return [e for e in sent if e[1][0] != MCAST_ADDR], [e for e in sent if e[1][0] == MCAST_ADDR]


def describe(entries):
    return [
        (label, dest[:2], f'id={m.id}', [str(q) for q in m.questions], f'{len(m.answers())} records')
        for label, dest, m in entries
    ]

TYPE_ = '_c11pre2._tcp.local.'
NAME = 'unit.' + TYPE_


async def main():
    async with Harness() as h:
        info = ServiceInfo(
            TYPE_, NAME, 80, 0, 0, {'a': 'b'}, 'c11pre2-host.local.', addresses=[socket.inet_aton('10.0.1.2')]
        )
        h.zc.registry.async_add(info)
        h.loop_back_announcement(info)
        h.clock.now += 5_000

        out = DNSOutgoing(const._FLAGS_QR_QUERY, multicast=False, id_=7)
        out.add_question(DNSQuestion(TYPE_, const._TYPE_PTR, const._CLASS_IN))
        data = out.packets()[0]

        first_src = ('127.0.0.1', 40000)
        ucast, _ = h.feed(data, first_src)
        print('legacy query id=7 from', first_src, '-> unicast', describe(ucast))
        assert len(ucast) == 1 and ucast[0][1][:2] == first_src and ucast[0][2].id == 7, 'control failed'

        h.clock.now += 300
        second_src = ('127.0.0.9', 41000)
        ucast, mcast = h.feed(data, second_src)
        print('same bytes 300ms later from', second_src, '-> unicast', describe(ucast), 'multicast', describe(mcast))
        print('required: a unicast reply to', second_src, 'with id 7 echoing the question')
        h.zc.registry.async_remove(info)
        ok = len(ucast) == 1 and ucast[0][1][:2] == second_src and ucast[0][2].id == 7
        if not ok:
            print('DEFECT REPRODUCED: the second querier got no unicast reply')
            return 1
        print('not reproduced')
        return 0


if __name__ == '__main__':
    sys.exit(asyncio.run(main()))

"""A name whose labels are all legal (<= 63 bytes) but whose total length exceeds 253 is emitted by the builder
without NamePartTooLongException, and the library's own decoder rejects the whole datagram."""
import sys
from zeroconf import DNSOutgoing, DNSIncoming, DNSQuestion, DNSText, const
from zeroconf._exceptions import NamePartTooLongException
name = '.'.join(['a' * 60] * 5) + '.local.'      # 311 characters, every label 60 bytes
out = DNSOutgoing(const._FLAGS_QR_RESPONSE | const._FLAGS_AA)
out.add_answer_at_time(DNSText(name, const._TYPE_TXT, const._CLASS_IN, 120, b'\x03a=b'), 0)
out.add_answer_at_time(DNSText('short.local.', const._TYPE_TXT, const._CLASS_IN, 120, b'\x03c=d'), 0)
try:
    pk = out.packets()
except NamePartTooLongException:
    print('rejected with NamePartTooLongException - ok'); sys.exit(0)
m = DNSIncoming(pk[0])
print('emitted', len(pk[0]), 'bytes; decoder valid =', m.valid, '; answers =', [a.name[:20] for a in m.answers()])
if not m.valid or len(m.answers()) != 2:
    print('DEFECT: neither rejected nor recovered'); sys.exit(1)
print('ok')

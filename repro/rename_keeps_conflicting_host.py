"""A service registered WITHOUT an explicit server name takes its instance name as host name.
Before 1cac9f4 that default was filled in before the conflict check: when the check renamed the
service (`foo` is taken -> `foo-2`), the renamed service announced its SRV target and its A record
(cache-flush bit set) under the OLD, conflicting name `foo._rkh._tcp.local.` -- the property says
the conflicting name is never announced or answered for."""
import asyncio, sys, socket
from zeroconf import ServiceInfo, DNSIncoming, DNSPointer, const, current_time_millis
from zeroconf.asyncio import AsyncZeroconf
import zeroconf._core as core

TYPE = '_rkh._tcp.local.'
TAKEN = 'foo._rkh._tcp.local.'


async def main():
    aiozc = AsyncZeroconf(interfaces=['127.0.0.1'])
    zc = aiozc.zeroconf
    await zc.async_wait_for_start()
    # another host already advertises `foo`
    zc.cache.async_add_records([DNSPointer(TYPE, const._TYPE_PTR, const._CLASS_IN, 4500, TAKEN, current_time_millis())])
    owners = []

    def cap(log_debug, transport, packet, packet_num, out, addr, port, v6_flow_scope=()):
        m = DNSIncoming(packet)
        if m.is_response():
            for r in m.answers():
                owners.append((r.name, r.type, getattr(r, 'server', None)))

    core.async_send_with_transport = cap
    info = ServiceInfo(TYPE, TAKEN, 80, 0, 0, {}, addresses=[socket.inet_aton('10.0.0.1')])   # no server given
    await (await aiozc.async_register_service(info, allow_name_change=True))
    await aiozc.async_close()
    print('registered as', info.name, 'host', info.server)
    bad = sorted({(n, t, s) for n, t, s in owners if (t in (const._TYPE_A, const._TYPE_AAAA, const._TYPE_NSEC) and n.lower() == TAKEN) or (s or '').lower() == TAKEN})
    for b in bad:
        print('announced under the conflicting name:', b)
    if info.name.lower() != TAKEN and bad:
        print('DEFECT: the renamed service announced records under the conflicting name'); sys.exit(1)
    print('ok')


asyncio.run(main())

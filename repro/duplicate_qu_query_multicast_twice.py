"""A query with a QU question delivered twice back to back: when the record was not multicast within a quarter of its TTL the
answer goes out by MULTICAST for each copy (the property allows only the unicast answer to be doubled)."""
import asyncio, sys, socket
from zeroconf import ServiceInfo, DNSOutgoing, DNSQuestion, DNSIncoming, const
from zeroconf.asyncio import AsyncZeroconf

async def main():
    aiozc = AsyncZeroconf(interfaces=['127.0.0.1'])
    zc = aiozc.zeroconf
    await zc.async_wait_for_start()
    info = ServiceInfo('_dupqu._tcp.local.', 'x._dupqu._tcp.local.', 80, 0, 0, {}, 'dupqu-host.local.', addresses=[socket.inet_aton('10.0.0.9')])
    zc.registry.async_add(info)          # registered without announcing: nothing about it is in the cache
    sent = []
    zc.async_send = lambda out, addr=None, port=const._MDNS_PORT, v6_flow_scope=(), transport=None: sent.append((addr, [r.type for r, _ in out.answers]))
    q = DNSOutgoing(const._FLAGS_QR_QUERY)
    qu = DNSQuestion('dupqu-host.local.', const._TYPE_A, const._CLASS_IN)
    qu.unicast = True
    q.add_question(qu)
    data = q.packets()[0]
    proto = zc.engine.protocols[0]
    proto.datagram_received(data, ('127.0.0.1', const._MDNS_PORT))
    proto.datagram_received(data, ('127.0.0.1', const._MDNS_PORT))   # the link-layer duplicate
    await asyncio.sleep(0.7)
    mc = [s for s in sent if s[0] is None]
    print('multicast answers:', len(mc), 'unicast answers:', len(sent) - len(mc))
    await aiozc.async_close()
    if len(mc) > 1:
        print('DEFECT: the duplicate produced a second multicast answer'); sys.exit(1)
    print('ok')
asyncio.run(main())

"""pre4 (C12, UNCHANGED library): for a TC train only the FIRST packet's questions are counted by the "single SRV/A/AAAA/
NSEC question is answered at once" rule, so a train with several questions is answered with no jitter at all.

Clause violated: "Multicast answers to ordinary (QM) queries are sent no earlier than a random 20-120 ms ... after the
query arrives ... except that a query consisting of a single SRV, A, AAAA or NSEC question ... [is] answered at once"
- this query consists of two questions (truncated packet train with differing content).

Failing history (ms, one source):
    0  TC packet 1: one question, SRV of service 1
    1  final packet (TC clear): one question, PTR of service 2  -> completes the train; QueryHandler.async_response
       collects answers for both questions but _QueryResponse gets questions = msgs[0]._questions (length 1, SRV),
       so the PTR answer of service 2 is multicast at 1 ms, 0 ms after its question arrived (must be >= 20 ms).
Every jitter draw violates.

Fix idea: small and safe - in QueryHandler.async_response build `questions` from all packets
([q for msg in msgs for q in msg._questions]) before constructing _QueryResponse.
"""
import heapq
import random
import socket
import sys

import zeroconf
from zeroconf import DNSOutgoing, DNSQuestion, ServiceInfo, Zeroconf, const
from zeroconf._cache import DNSCache
from zeroconf._handlers.multicast_outgoing_queue import MulticastOutgoingQueue
from zeroconf._handlers.query_handler import QueryHandler
from zeroconf._handlers.record_manager import RecordManager
from zeroconf._history import QuestionHistory
from zeroconf._listener import AsyncListener
from zeroconf._services.registry import ServiceRegistry


class VirtualLoop:
    """Just enough of an event loop for loop.time()/loop.call_at(), on a millisecond grid."""

    class Handle:
        def __init__(self, when_ms, seq, cb, args):
            self.when_ms, self.seq, self.cb, self.args, self._cancelled = when_ms, seq, cb, args, False

        def cancel(self):
            self._cancelled = True

        def cancelled(self):
            return self._cancelled

        def __lt__(self, other):
            return (self.when_ms, self.seq) < (other.when_ms, other.seq)

    def __init__(self):
        self.now_ms = 10_000_000.0
        self._timers = []
        self._seq = 0

    def time(self):
        return self.now_ms / 1000.0

    def millis(self):
        return self.now_ms

    def call_at(self, when, cb, *args):
        self._seq += 1
        handle = self.Handle(round(when * 1000.0, 3), self._seq, cb, args)
        heapq.heappush(self._timers, handle)
        return handle

    def call_later(self, delay, cb, *args):
        return self.call_at(self.time() + delay, cb, *args)

    def call_soon(self, cb, *args):
        return self.call_at(self.time(), cb, *args)

    def advance_to(self, t_ms):
        while self._timers and self._timers[0].when_ms <= t_ms:
            handle = heapq.heappop(self._timers)
            if handle.cancelled():
                continue
            self.now_ms = max(self.now_ms, handle.when_ms)
            handle.cb(*handle.args)
        self.now_ms = t_ms


def patch_clock(loop):
    """Point every module's current_time_millis at the virtual clock."""
    for name, module in list(sys.modules.items()):
        if name.split('.')[0] == 'zeroconf' and hasattr(module, 'current_time_millis'):
            setattr(module, 'current_time_millis', loop.millis)


class Harness:
    def __init__(self):
        self.loop = VirtualLoop()
        patch_clock(self.loop)
        self.t0 = self.loop.now_ms
        zc = Zeroconf.__new__(Zeroconf)  # the responder without sockets or threads
        zc.done = False
        zc.unicast = False
        zc.browsers = {}
        zc.registry = ServiceRegistry()
        zc.cache = DNSCache()
        zc.question_history = QuestionHistory()
        real = zeroconf._core
        zc.out_queue = MulticastOutgoingQueue(zc, 0, real._AGGREGATION_DELAY)
        zc.out_delay_queue = MulticastOutgoingQueue(zc, const._ONE_SECOND, real._PROTECTED_AGGREGATION_DELAY)
        zc.query_handler = QueryHandler(zc)
        zc.record_manager = RecordManager(zc)
        zc._notify_futures = set()
        zc.loop = self.loop
        self.sent = []  # (virtual ms relative to t0, [answer records], [additional records])
        zc.async_send = self._record_send
        self.zc = zc
        self.listener = AsyncListener(zc)
        self.listener.transport = object()

    def _record_send(self, out, addr=None, port=const._MDNS_PORT, v6_flow_scope=(), transport=None):
        if addr is None:  # multicast
            self.sent.append(
                (self.loop.now_ms - self.t0, [r for r, _ in out.answers], list(out.additionals))
            )

    def at(self, t_ms):
        self.loop.advance_to(self.t0 + t_ms)

    def receive(self, out, source='10.1.1.9'):
        for packet in out.packets():
            self.listener.datagram_received(packet, (source, const._MDNS_PORT))


def make_service(n):
    type_ = f"_demo{n}._tcp.local."
    return ServiceInfo(
        type_, f"inst{n}.{type_}", 80, 0, 0, {'k': 'v'}, f"host{n}.local.", addresses=[socket.inet_aton(f"10.0.1.{n}")]
    )


def ptr_query(info):
    out = DNSOutgoing(const._FLAGS_QR_QUERY, multicast=True)
    out.add_question(DNSQuestion(info.type, const._TYPE_PTR, const._CLASS_IN))
    return out


def peer_response(info):
    out = DNSOutgoing(const._FLAGS_QR_RESPONSE | const._FLAGS_AA)
    out.add_answer_at_time(info.dns_pointer(), 0)
    return out



def run(seed):
    random.seed(seed)
    h = Harness()
    infos = {n: make_service(n) for n in (1, 2)}
    for info in infos.values():
        h.zc.registry.async_add(info)
    first = DNSOutgoing(const._FLAGS_QR_QUERY | const._FLAGS_TC, multicast=True)
    first.add_question(DNSQuestion(infos[1].name, const._TYPE_SRV, const._CLASS_IN))
    last = DNSOutgoing(const._FLAGS_QR_QUERY, multicast=True)
    last.add_question(DNSQuestion(infos[2].type, const._TYPE_PTR, const._CLASS_IN))
    h.at(0)
    h.receive(first, source='10.1.1.50')
    h.at(1)
    h.receive(last, source='10.1.1.50')
    h.at(3000)
    ptr = infos[2].dns_pointer()
    return [t for t, answers, _ in h.sent if ptr in answers]


def main():
    bad = []
    for seed in range(20):
        sends = run(seed)
        if [t for t in sends if t < 21]:
            bad.append((seed, sends))
    print("required: the PTR question arrived at 1 ms in a two-question query, its answer must not be multicast before 21 ms")
    for seed, sends in bad[:6]:
        print(f"  seed {seed}: PTR of service 2 multicast at {sends} ms")
    print(f"violating jitter seeds: {len(bad)} of 20")
    sys.exit(1 if bad else 0)


if __name__ == '__main__':
    main()
